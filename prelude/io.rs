use std::sync::Arc;
use core::cmp;
use std::io::SeekFrom;
use vstd::std_specs::cmp::OrdSpec;
// ---- trusted prelude: std::io types and a few std functions (assumed specs)
#[verifier::external_type_specification]
pub struct ExSeekFrom(std::io::SeekFrom);
#[verifier::external_type_specification]
#[verifier::external_body]
pub struct ExIoError(std::io::Error);
#[verifier::external_type_specification]
pub struct ExIoErrorKind(std::io::ErrorKind);
pub uninterp spec fn io_kind(e: std::io::Error) -> std::io::ErrorKind;
// `==` on io::ErrorKind (a fieldless derive(PartialEq) enum of std): structural equality
pub axiom fn axiom_iokind_obeys() ensures <std::io::ErrorKind as vstd::std_specs::cmp::PartialEqSpec>::obeys_eq_spec();
pub broadcast axiom fn axiom_iokind_eq(a: std::io::ErrorKind, b: std::io::ErrorKind)
    ensures #[trigger] <std::io::ErrorKind as vstd::std_specs::cmp::PartialEqSpec>::eq_spec(&a, &b) == (a == b);
#[verifier::allow(undeclared_external_trait)]
pub assume_specification<T: std::cmp::Ord + std::marker::Destruct> [std::cmp::min] (a: T, b: T) -> (r: T)
    ensures T::obeys_cmp_spec() ==> r == (if a.cmp_spec(&b) == core::cmp::Ordering::Greater { b } else { a });
pub assume_specification [i64::unsigned_abs] (x: i64) -> (r: u64)
    ensures r as int == (if x < 0 { -(x as int) } else { x as int });
pub assume_specification [std::io::Error::kind] (e: &std::io::Error) -> (r: std::io::ErrorKind)
    ensures r == io_kind(*e);
// rule R22 target: same call, assumed spec
#[verifier::external_body]
fn verif_io_error_new(kind: std::io::ErrorKind, msg: &str) -> (r: std::io::Error)
    ensures io_kind(r) == kind
{ std::io::Error::new(kind, msg) }
