use std::sync::Arc;
// ---- rule R5: the state of every filesystem reachable through `Box<dyn FileSystem>` is an explicit `world: &mut World`;
//      `self.fs.fs.m(args)` becomes `world.m(&self.fs, args)`, whose ONLY known behaviour is the trait contract TC (spec/tree.rs).
//      This is the assume side for `dyn FileSystem`; the guarantee side is proved per backend (U03 MemoryFS, U08 AltrootFS, U09 OverlayFS).
#[verifier::external_body]
#[derive(Debug)]
pub struct VFS { _p: u8 }
#[verifier::external_body]
pub struct World { _p: u8 }
/// handle types (rule R3b): opaque, with ghost content/position/destination
#[verifier::external_body]
pub struct ReadHandle { _p: u8 }
#[verifier::external_body]
pub struct WriteHandle { _p: u8 }
pub uninterp spec fn rh_bytes(h: ReadHandle) -> Seq<u8>;
pub uninterp spec fn rh_pos(h: ReadHandle) -> int;
pub uninterp spec fn wh_fs(h: WriteHandle) -> Arc<VFS>;
pub uninterp spec fn wh_dest(h: WriteHandle) -> Seq<char>;
pub uninterp spec fn wh_buf(h: WriteHandle) -> Seq<u8>;
pub uninterp spec fn wh_pos(h: WriteHandle) -> int;

pub assume_specification<T: ?Sized, A: std::alloc::Allocator> [Arc::<T, A>::ptr_eq] (a: &Arc<T, A>, b: &Arc<T, A>) -> (r: bool)
    ensures r == (a == b);
pub assume_specification [<Arc<str> as From<String>>::from] (s: String) -> (r: Arc<str>)
    ensures r@ == s@;
#[verifier::external_body]
fn verif_str_into_arc(s: &str) -> (r: Arc<str>)
    ensures r@ == s@
{ s.into() }

impl World {
    /// abstract tree of filesystem instance `fs` (for an adapter: its derived view)
    pub uninterp spec fn tree(&self, fs: Arc<VFS>) -> Tree;
    /// where mutating trait calls have been issued (the in-proof counterpart of a recording wrapper)
    pub uninterp spec fn mutlog(&self) -> ISet<(Arc<VFS>, Seq<char>)>;
    /// a backend that never fails spuriously: it meets the completeness half TC+ (proved for MemoryFS; for PhysicalFS this is "no I/O error")
    pub uninterp spec fn reliable(f: Arc<VFS>) -> bool;
    /// two filesystem instances that share no state (static relation; e.g. two MemoryFS::new() values)
    pub uninterp spec fn indep(f: Arc<VFS>, g: Arc<VFS>) -> bool;
    /// C20 ghost counter: how many calls into an underlying filesystem have returned an I/O error so far (observers included)
    pub uninterp spec fn faults(&self) -> nat;
}
pub open spec fn io_fault<T>(r: VfsResult<T>) -> bool { r is Err && ekind(r->Err_0) is IoError }
pub open spec fn fault_step(w1: World, w2: World, failed: bool) -> bool { w2.faults() == w1.faults() + (if failed { 1nat } else { 0nat }) }
pub open spec fn no_fault(w1: World, w2: World) -> bool { w2.faults() == w1.faults() }
pub open spec fn world_same(w1: World, w2: World) -> bool {
    &&& forall|g: Arc<VFS>| #[trigger] w2.tree(g) == w1.tree(g)
    &&& w2.mutlog() == w1.mutlog()
}
pub open spec fn world_same_mod_accessed(w1: World, w2: World) -> bool {
    &&& forall|g: Arc<VFS>| same_modulo_accessed(w1.tree(g), #[trigger] w2.tree(g))
    &&& w2.mutlog() == w1.mutlog()
}
/// a mutating call on (fs, p): instances independent of fs keep their tree, the log gains exactly (fs, p)
pub open spec fn world_mutated_at(w1: World, w2: World, fs: Arc<VFS>, p: Seq<char>) -> bool {
    &&& forall|g: Arc<VFS>| g != fs && World::indep(fs, g) ==> #[trigger] w2.tree(g) == w1.tree(g)
    &&& w2.mutlog() == w1.mutlog().insert((fs, p))
}

impl World {
    #[verifier::external_body]
    pub fn exists(&mut self, fs: &Arc<VFS>, path: &str) -> (r: VfsResult<bool>)
        requires canonical(path@)
        ensures fault_step(*old(self), *final(self), io_fault(r)), world_same(*old(self), *final(self)), tc_exists(old(self).tree(*fs), path@, r, final(self).tree(*fs)),
                World::reliable(*fs) ==> r is Ok,
    { unimplemented!() }
    #[verifier::external_body]
    pub fn metadata(&mut self, fs: &Arc<VFS>, path: &str) -> (r: VfsResult<VfsMetadata>)
        requires canonical(path@)
        ensures fault_step(*old(self), *final(self), io_fault(r)), world_same(*old(self), *final(self)), tc_metadata(old(self).tree(*fs), path@, r, final(self).tree(*fs)),
                World::reliable(*fs) && old(self).tree(*fs).contains_key(path@) ==> r is Ok,
    { unimplemented!() }
    #[verifier::external_body]
    pub fn read_dir(&mut self, fs: &Arc<VFS>, path: &str) -> (r: VfsResult<std::vec::IntoIter<String>>)
        requires canonical(path@)
        ensures fault_step(*old(self), *final(self), io_fault(r)), world_same(*old(self), *final(self)),
                r is Ok ==> tc_read_dir_ok(old(self).tree(*fs), path@, string_views(r->Ok_0.remaining()), final(self).tree(*fs)) && r->Ok_0.decrease() is Some,
                r is Err ==> tc_read_dir_err(old(self).tree(*fs), path@, r->Err_0, final(self).tree(*fs)),
                World::reliable(*fs) && is_dir_at(old(self).tree(*fs), path@) ==> r is Ok,
    { unimplemented!() }
    #[verifier::external_body]
    pub fn open_file(&mut self, fs: &Arc<VFS>, path: &str) -> (r: VfsResult<Box<ReadHandle>>)
        requires canonical(path@)
        ensures fault_step(*old(self), *final(self), io_fault(r)), world_same_mod_accessed(*old(self), *final(self)),
                r is Ok ==> tc_open_file_ok(old(self).tree(*fs), path@, rh_bytes(*r->Ok_0), rh_pos(*r->Ok_0), final(self).tree(*fs)),
                r is Err ==> tc_open_file_err(old(self).tree(*fs), path@, r->Err_0, final(self).tree(*fs)),
                World::reliable(*fs) && is_file_at(old(self).tree(*fs), path@) ==> r is Ok,
    { unimplemented!() }
    #[verifier::external_body]
    pub fn create_dir(&mut self, fs: &Arc<VFS>, path: &str) -> (r: VfsResult<()>)
        requires canonical(path@)
        ensures fault_step(*old(self), *final(self), io_fault(r)), world_mutated_at(*old(self), *final(self), *fs, path@), tc_create_dir(old(self).tree(*fs), path@, r, final(self).tree(*fs)),
                World::reliable(*fs) ==> tcp_create_dir(old(self).tree(*fs), path@, r),
    { unimplemented!() }
    #[verifier::external_body]
    pub fn create_file(&mut self, fs: &Arc<VFS>, path: &str) -> (r: VfsResult<Box<WriteHandle>>)
        requires canonical(path@)
        ensures fault_step(*old(self), *final(self), io_fault(r)), world_mutated_at(*old(self), *final(self), *fs, path@),
                r is Ok ==> wh_fs(*r->Ok_0) == *fs && tc_create_file_ok(old(self).tree(*fs), path@, wh_dest(*r->Ok_0), wh_buf(*r->Ok_0), wh_pos(*r->Ok_0), final(self).tree(*fs)),
                r is Err ==> final(self).tree(*fs) =~= old(self).tree(*fs) && kind_neutral(r->Err_0),
                World::reliable(*fs) ==> tcp_create_file(old(self).tree(*fs), path@, r is Ok),
    { unimplemented!() }
    #[verifier::external_body]
    pub fn append_file(&mut self, fs: &Arc<VFS>, path: &str) -> (r: VfsResult<Box<WriteHandle>>)
        requires canonical(path@)
        ensures fault_step(*old(self), *final(self), io_fault(r)), world_mutated_at(*old(self), *final(self), *fs, path@),
                r is Ok ==> wh_fs(*r->Ok_0) == *fs && tc_append_file_ok(old(self).tree(*fs), path@, wh_dest(*r->Ok_0), wh_buf(*r->Ok_0), wh_pos(*r->Ok_0), final(self).tree(*fs)),
                r is Err ==> tc_fail_unchanged(old(self).tree(*fs), path@, r->Err_0, final(self).tree(*fs)),
                World::reliable(*fs) && is_file_at(old(self).tree(*fs), path@) ==> r is Ok,
    { unimplemented!() }
    #[verifier::external_body]
    pub fn remove_file(&mut self, fs: &Arc<VFS>, path: &str) -> (r: VfsResult<()>)
        requires canonical(path@)
        ensures fault_step(*old(self), *final(self), io_fault(r)), world_mutated_at(*old(self), *final(self), *fs, path@), tc_remove_file(old(self).tree(*fs), path@, r, final(self).tree(*fs)),
                World::reliable(*fs) ==> tcp_remove_file(old(self).tree(*fs), path@, r),
    { unimplemented!() }
    #[verifier::external_body]
    pub fn remove_dir(&mut self, fs: &Arc<VFS>, path: &str) -> (r: VfsResult<()>)
        requires canonical(path@)
        ensures fault_step(*old(self), *final(self), io_fault(r)), world_mutated_at(*old(self), *final(self), *fs, path@), tc_remove_dir(old(self).tree(*fs), path@, r, final(self).tree(*fs)),
                World::reliable(*fs) ==> tcp_remove_dir(old(self).tree(*fs), path@, r),
    { unimplemented!() }
    #[verifier::external_body]
    pub fn set_creation_time(&mut self, fs: &Arc<VFS>, path: &str, time: SystemTime) -> (r: VfsResult<()>)
        requires canonical(path@)
        ensures fault_step(*old(self), *final(self), io_fault(r)), world_mutated_at(*old(self), *final(self), *fs, path@), tc_set_time(old(self).tree(*fs), path@, TimeField::Created, time, r, final(self).tree(*fs))
    { unimplemented!() }
    #[verifier::external_body]
    pub fn set_modification_time(&mut self, fs: &Arc<VFS>, path: &str, time: SystemTime) -> (r: VfsResult<()>)
        requires canonical(path@)
        ensures fault_step(*old(self), *final(self), io_fault(r)), world_mutated_at(*old(self), *final(self), *fs, path@), tc_set_time(old(self).tree(*fs), path@, TimeField::Modified, time, r, final(self).tree(*fs))
    { unimplemented!() }
    #[verifier::external_body]
    pub fn set_access_time(&mut self, fs: &Arc<VFS>, path: &str, time: SystemTime) -> (r: VfsResult<()>)
        requires canonical(path@)
        ensures fault_step(*old(self), *final(self), io_fault(r)), world_mutated_at(*old(self), *final(self), *fs, path@), tc_set_time(old(self).tree(*fs), path@, TimeField::Accessed, time, r, final(self).tree(*fs))
    { unimplemented!() }
}
// ---- iterator adapter stand-in (rule R8): `it.map(f)` over a listing, eagerly; elementwise closure contract
#[verifier::external_body]
fn verif_iter_map<T, U, F: FnMut(T) -> U>(it: std::vec::IntoIter<T>, f: F) -> (r: std::vec::IntoIter<U>)
    requires forall|i: int| 0 <= i < it.remaining().len() ==> f.requires((#[trigger] it.remaining()[i],))
    ensures r.remaining().len() == it.remaining().len(), r.decrease() is Some,
            forall|i: int| 0 <= i < it.remaining().len() ==> f.ensures((it.remaining()[i],), #[trigger] r.remaining()[i]),
{ it.map(f).collect::<Vec<_>>().into_iter() }
// ---- reading / copying through handles (assumed std behaviour; write-through model, see DESIGN section 4.3)
pub uninterp spec fn utf8_decode(b: Seq<u8>) -> Option<Seq<char>>;
impl ReadHandle {
    /// std::io::Read::read_to_string on a handle: appends the remaining bytes if they are valid UTF-8
    #[verifier::external_body]
    pub fn read_to_string(&mut self, buf: &mut String) -> (r: std::io::Result<usize>)
        ensures r is Ok ==> utf8_decode(rh_bytes(*old(self)).skip(rh_pos(*old(self)))) is Some
                    && final(buf)@ == old(buf)@ + utf8_decode(rh_bytes(*old(self)).skip(rh_pos(*old(self))))->Some_0,
                rh_bytes(*final(self)) == rh_bytes(*old(self)),
    { unimplemented!() }
}
pub assume_specification [String::with_capacity] (n: usize) -> (r: String)
    ensures r@.len() == 0;
impl World {
    /// std::io::copy(&mut src, &mut dest): appends everything the reader still yields at the writer's position.
    /// Write-through model: the destination entry holds the written bytes when the call returns (for MemoryFS this is
    /// what flush/drop publish - proved in U03 - and sessions are atomic per C01's exclusions).
    #[verifier::external_body]
    pub fn io_copy(&mut self, src: &mut Box<ReadHandle>, dest: &mut Box<WriteHandle>) -> (r: std::io::Result<u64>)
        ensures final(self).mutlog() == old(self).mutlog(), fault_step(*old(self), *final(self), r is Err),
                forall|g: Arc<VFS>| g != wh_fs(**old(dest)) && World::indep(wh_fs(**old(dest)), g) ==> #[trigger] final(self).tree(g) == old(self).tree(g),
                changed_only_at(old(self).tree(wh_fs(**old(dest))), final(self).tree(wh_fs(**old(dest))), wh_dest(**old(dest))),
                wh_fs(**final(dest)) == wh_fs(**old(dest)) && wh_dest(**final(dest)) == wh_dest(**old(dest)),
                r is Ok && is_file_at(old(self).tree(wh_fs(**old(dest))), wh_dest(**old(dest))) ==> is_file_at(final(self).tree(wh_fs(**old(dest))), wh_dest(**old(dest)))
                    && final(self).tree(wh_fs(**old(dest)))[wh_dest(**old(dest))].bytes
                        == cur_write_spec(wh_buf(**old(dest)), wh_pos(**old(dest)), rh_bytes(**old(src)).skip(rh_pos(**old(src)))),
    { unimplemented!() }
}
impl World {
    /// optional fast path FileSystem::copy_file(src, dest) within one filesystem
    #[verifier::external_body]
    pub fn copy_file(&mut self, fs: &Arc<VFS>, src: &str, dest: &str) -> (r: VfsResult<()>)
        requires canonical(src@), canonical(dest@)
        ensures fault_step(*old(self), *final(self), io_fault(r)), forall|g: Arc<VFS>| g != *fs && World::indep(*fs, g) ==> #[trigger] final(self).tree(g) == old(self).tree(g),
                final(self).mutlog() == old(self).mutlog().insert((*fs, dest@)) || final(self).mutlog() == old(self).mutlog(),
                tc_copy_file(old(self).tree(*fs), src@, dest@, r, final(self).tree(*fs)),
    { unimplemented!() }
}
impl World {
    /// optional fast path FileSystem::move_file(src, dest) within one filesystem
    #[verifier::external_body]
    pub fn move_file(&mut self, fs: &Arc<VFS>, src: &str, dest: &str) -> (r: VfsResult<()>)
        requires canonical(src@), canonical(dest@)
        ensures fault_step(*old(self), *final(self), io_fault(r)), forall|g: Arc<VFS>| g != *fs && World::indep(*fs, g) ==> #[trigger] final(self).tree(g) == old(self).tree(g),
                forall|f: Arc<VFS>, q: Seq<char>| #[trigger] final(self).mutlog().contains((f, q)) && !old(self).mutlog().contains((f, q)) ==> f == *fs && (q == src@ || q == dest@),
                tc_move_file(old(self).tree(*fs), src@, dest@, r, final(self).tree(*fs)),
    { unimplemented!() }
}
// ---- HashSet<String> listing support (OverlayFS::read_dir)
use std::collections::HashSet;
/// rule R8 (HashSet variant): `Box::new(S.into_iter())` for a HashSet S -> eager vector iterator with the same elements, each once
#[verifier::external_body]
fn verif_set_into_vec_iter(s: HashSet<String>) -> (r: std::vec::IntoIter<String>)
    ensures r.remaining().no_duplicates(), r.remaining().to_set() =~= s@, r.decrease() is Some
{ s.into_iter().collect::<Vec<_>>().into_iter() }
