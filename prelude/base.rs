// ---- base prelude: layout assumption
global size_of usize == 8;
