// ---- base prelude: layout assumption
global size_of usize == 8;
// rule R31 target: the same addition; ASSUMED not to overflow (a u64 counter incremented once per directory entry copied)
#[verifier::external_body]
fn verif_count_succ(c: u64) -> (r: u64)
    ensures r == c + 1
{ c + 1 }
// std `<[T]>::to_vec` (no spec in vstd): a vector of the same length whose elements are clones of the slice's elements
pub assume_specification<T: Clone> [<[T]>::to_vec] (s: &[T]) -> (r: Vec<T>)
    ensures r@.len() == s@.len(), forall|i: int| 0 <= i < s@.len() ==> cloned::<T>(#[trigger] s@[i], r@[i]);
