// ---- base prelude: layout assumption
global size_of usize == 8;
// rule R31 target: the same addition; ASSUMED not to overflow (a u64 counter incremented once per directory entry copied)
#[verifier::external_body]
fn verif_count_succ(c: u64) -> (r: u64)
    ensures r == c + 1
{ c + 1 }
