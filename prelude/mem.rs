use std::io::{Cursor, Read, Seek, Write};
use std::mem::swap;
// ---- trusted prelude: SystemTime, Cursor<Vec<u8>>, lock cell token (rule R4)

/// Rule R4: the single `Arc<RwLock<MemoryFsImpl>>` cell becomes an explicit `st: &mut MemoryFsImpl` parameter;
/// a clone of the Arc is this token.
pub struct LockCell;
pub type MemoryFsHandle = LockCell;

#[verifier::external_type_specification]
#[verifier::external_body]
#[verifier::reject_recursive_types(T)]
pub struct ExCursor<T>(Cursor<T>);
pub uninterp spec fn cur_inner<T>(c: Cursor<T>) -> T;
pub uninterp spec fn cur_pos<T>(c: Cursor<T>) -> u64;
pub open spec fn cur_buf(c: Cursor<Vec<u8>>) -> Seq<u8> { cur_inner(c)@ }
pub assume_specification<T> [Cursor::<T>::new] (v: T) -> (c: Cursor<T>)
    ensures cur_inner(c) == v, cur_pos(c) == 0;
pub assume_specification<T> [Cursor::<T>::get_ref] (c: &Cursor<T>) -> (v: &T)
    ensures *v == cur_inner(*c);
pub assume_specification<T> [Cursor::<T>::get_mut] (c: &mut Cursor<T>) -> (v: &mut T)
    ensures *v == cur_inner(*old(c)), cur_inner(*final(c)) == *final(v), cur_pos(*final(c)) == cur_pos(*old(c));
pub assume_specification<T> [Cursor::<T>::position] (c: &Cursor<T>) -> (p: u64)
    ensures p == cur_pos(*c);
pub assume_specification<A: std::alloc::Allocator> [<Cursor<Vec<u8, A>> as Write>::flush] (c: &mut Cursor<Vec<u8, A>>) -> (r: std::io::Result<()>)
    ensures r is Ok, *final(c) == *old(c);
pub assume_specification<A: std::alloc::Allocator> [<Cursor<Vec<u8, A>> as Write>::write] (c: &mut Cursor<Vec<u8, A>>, buf: &[u8]) -> (r: std::io::Result<usize>)
    ensures r is Ok ==> r->Ok_0 == buf@.len() && cur_pos(*final(c)) == cur_pos(*old(c)) + buf@.len()
                && cur_inner(*final(c))@ == cur_write_spec(cur_inner(*old(c))@, cur_pos(*old(c)) as int, buf@),
            r is Err ==> *final(c) == *old(c);
/// byte length of the buffer a Cursor<T: AsRef<[u8]>> runs over
pub uninterp spec fn as_ref_len<T>(t: T) -> int;
pub broadcast axiom fn axiom_as_ref_len_vec(v: Vec<u8>)
    ensures #[trigger] as_ref_len::<Vec<u8>>(v) == v@.len();
pub assume_specification<T: AsRef<[u8]>> [<Cursor<T> as Seek>::seek] (c: &mut Cursor<T>, pos: SeekFrom) -> (r: std::io::Result<u64>)
    ensures cur_inner(*final(c)) == cur_inner(*old(c)),
            match rd_seek(as_ref_len(cur_inner(*old(c))), cur_pos(*old(c)) as int, pos) {
                Some(t) => r is Ok && r->Ok_0 == t && cur_pos(*final(c)) == t,
                None => r is Err && cur_pos(*final(c)) == cur_pos(*old(c)),
            };
pub assume_specification<T, A> [<std::sync::Arc<T, A> as std::convert::AsRef<T>>::as_ref] (a: &std::sync::Arc<T, A>) -> (r: &T)
    where A: std::alloc::Allocator, T: std::marker::MetaSized + ?Sized,
    ensures r == &**a;
