use vstd::std_specs::hash::*;
use std::collections::HashMap;
use std::collections::hash_map::Entry;
// ---- trusted prelude: String values from Seq<char>, String as a HashMap key, borrowed &str keys
pub uninterp spec fn skey(s: Seq<char>) -> String;
pub broadcast axiom fn axiom_skey_view(s: Seq<char>)
    ensures (#[trigger] skey(s))@ == s;
pub broadcast axiom fn axiom_skey_ext(s: String)
    ensures #[trigger] skey(s@) == s;
pub axiom fn axiom_string_obeys_key_model()
    ensures obeys_key_model::<String>();
pub broadcast axiom fn axiom_str_borrowed_contains<V>(m: Map<String, V>, k: &str)
    ensures #[trigger] contains_borrowed_key::<String, V, str>(m, k) <==> m.contains_key(skey(k@));
pub broadcast axiom fn axiom_str_borrowed_maps<V>(m: Map<String, V>, k: &str, v: V)
    ensures #[trigger] maps_borrowed_key_to_value::<String, V, str>(m, k, v) <==> (m.contains_key(skey(k@)) && m[skey(k@)] == v);
pub broadcast axiom fn axiom_str_borrowed_removed<V>(m: Map<String, V>, m2: Map<String, V>, k: &str)
    ensures #[trigger] borrowed_key_removed::<String, V, str>(m, m2, k) <==> m2 == m.remove(skey(k@));
pub broadcast axiom fn axiom_string_borrowed_contains<V>(m: Map<String, V>, k: &String)
    ensures #[trigger] contains_borrowed_key::<String, V, String>(m, k) <==> m.contains_key(*k);
pub broadcast axiom fn axiom_string_borrowed_maps<V>(m: Map<String, V>, k: &String, v: V)
    ensures #[trigger] maps_borrowed_key_to_value::<String, V, String>(m, k, v) <==> (m.contains_key(*k) && m[*k] == v);
pub broadcast axiom fn axiom_string_borrowed_removed<V>(m: Map<String, V>, m2: Map<String, V>, k: &String)
    ensures #[trigger] borrowed_key_removed::<String, V, String>(m, m2, k) <==> m2 == m.remove(*k);
pub broadcast group string_key_axioms { axiom_skey_view, axiom_skey_ext, axiom_str_borrowed_contains, axiom_str_borrowed_maps, axiom_str_borrowed_removed,
    axiom_string_borrowed_contains, axiom_string_borrowed_maps, axiom_string_borrowed_removed, axiom_str_mutated }
// conversion of `impl Into<String>` arguments (rule R23)
pub uninterp spec fn into_string_view<T>(t: T) -> Seq<char>;
pub broadcast axiom fn axiom_into_string_view_str(s: &str)
    ensures #[trigger] into_string_view::<&str>(s) == s@;
pub broadcast axiom fn axiom_into_string_view_string(s: String)
    ensures #[trigger] into_string_view::<String>(s) == s@;
pub broadcast axiom fn axiom_into_string_view_string_ref(s: &String)
    ensures #[trigger] into_string_view::<&String>(s) == s@;
pub broadcast group into_string_axioms { axiom_into_string_view_str, axiom_into_string_view_string, axiom_into_string_view_string_ref }
#[verifier::external_body]
fn verif_into_string<T: Into<String>>(t: T) -> (r: String)
    ensures r@ == into_string_view(t)
{ t.into() }
// HashMap::get_mut (no spec in vstd): the entry may be mutated in place, every other key is untouched
pub uninterp spec fn mutated_at_borrowed_key<K, V, Q: ?Sized>(m1: Map<K, V>, m2: Map<K, V>, k: &Q, v: V) -> bool;
pub assume_specification<'a, K, V, S, A, Q> [std::collections::HashMap::<K, V, S, A>::get_mut] (m: &'a mut std::collections::HashMap<K, V, S, A>, k: &Q) -> (r: std::option::Option<&'a mut V>)
            where
            A: std::alloc::Allocator,
            K: std::cmp::Eq + std::hash::Hash + std::borrow::Borrow<Q>,
            Q: std::marker::MetaSized + std::hash::Hash + std::cmp::Eq + ?Sized,
            S: std::hash::BuildHasher,
    ensures obeys_key_model::<K>() && builds_valid_hashers::<S>() ==> match r {
        None => !contains_borrowed_key(old(m)@, k) && final(m)@ == old(m)@,
        Some(v) => contains_borrowed_key(old(m)@, k) && maps_borrowed_key_to_value(old(m)@, k, *v)
                   && mutated_at_borrowed_key(old(m)@, final(m)@, k, *final(v)),
    };
pub broadcast axiom fn axiom_str_mutated<V>(m1: Map<String, V>, m2: Map<String, V>, k: &str, v: V)
    ensures #[trigger] mutated_at_borrowed_key::<String, V, str>(m1, m2, k, v) <==> m2 == m1.insert(skey(k@), v);
// `impl AsRef<str>` arguments (rule R27)
pub uninterp spec fn as_ref_str_view<T>(t: T) -> Seq<char>;
pub broadcast axiom fn axiom_as_ref_str_view_str(s: &str)
    ensures #[trigger] as_ref_str_view::<&str>(s) == s@;
pub broadcast axiom fn axiom_as_ref_str_view_string(s: String)
    ensures #[trigger] as_ref_str_view::<String>(s) == s@;
pub broadcast axiom fn axiom_as_ref_str_view_string_ref(s: &String)
    ensures #[trigger] as_ref_str_view::<&String>(s) == s@;
pub broadcast group as_ref_str_axioms { axiom_as_ref_str_view_str, axiom_as_ref_str_view_string, axiom_as_ref_str_view_string_ref }
#[verifier::external_body]
fn verif_as_ref_str<T: AsRef<str>>(t: &T) -> (r: &str)
    ensures r@ == as_ref_str_view(*t)
{ t.as_ref() }
// HashSet<String> with borrowed &str keys
pub broadcast axiom fn axiom_str_set_differ(s1: Set<String>, s2: Set<String>, k: &str)
    ensures #[trigger] sets_differ_by_borrowed_key::<String, str>(s1, s2, k) <==> s2 == s1.remove(skey(k@));
pub broadcast axiom fn axiom_str_set_contains(s: Set<String>, k: &str)
    ensures #[trigger] set_contains_borrowed_key::<String, str>(s, k) <==> s.contains(skey(k@));
pub broadcast group string_set_axioms { axiom_str_set_differ, axiom_str_set_contains }
