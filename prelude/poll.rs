use std::task::Poll;
// ---- rule R30i: std::task::Poll as a transparent enum
#[verifier::external_type_specification]
#[verifier::accept_recursive_types(T)]
pub struct ExPoll<T>(std::task::Poll<T>);
