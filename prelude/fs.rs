use std::path::{Path, PathBuf};
use std::io::ErrorKind;
// ---- trusted prelude: the OS side (std::path, std::fs) is opaque; only the shape of the path handed to the OS is specified
#[verifier::external_type_specification]
#[verifier::external_body]
pub struct ExPathBuf(std::path::PathBuf);
#[verifier::external_type_specification]
#[verifier::external_body]
pub struct ExPath(std::path::Path);
#[verifier::external_type_specification]
#[verifier::external_body]
pub struct ExFsMetadata(std::fs::Metadata);
/// `root.join(rel)`: for a `rel` that does not start with '/' this is the path below root (PathBuf::join replaces the base only for absolute arguments)
pub uninterp spec fn path_join(root: &Path, rel: Seq<char>) -> PathBuf;
pub uninterp spec fn as_ref_path_view<P>(p: P) -> Seq<char>;
pub broadcast axiom fn axiom_as_ref_path_str(s: &str) ensures #[trigger] as_ref_path_view::<&str>(s) == s@;
#[verifier::allow(undeclared_external_trait)]
pub assume_specification<P: AsRef<Path>> [Path::join] (p: &Path, path: P) -> (r: PathBuf)
    ensures r == path_join(p, as_ref_path_view(path));
pub uninterp spec fn pb_as_path(p: &PathBuf) -> &Path;
pub assume_specification [<PathBuf as std::ops::Deref>::deref] (p: &PathBuf) -> (r: &Path)
    ensures r == pb_as_path(p);
#[verifier::allow(undeclared_external_trait)]
pub assume_specification<P: AsRef<Path>> [std::fs::create_dir] (p: P) -> (r: std::io::Result<()>);
#[verifier::allow(undeclared_external_trait)]
pub assume_specification<P: AsRef<Path>> [std::fs::metadata] (p: P) -> (r: std::io::Result<std::fs::Metadata>);
pub assume_specification [std::fs::Metadata::is_dir] (m: &std::fs::Metadata) -> (r: bool);
pub assume_specification<T, E> [std::result::Result::<T, E>::unwrap_or] (r: std::result::Result<T, E>, d: T) -> (v: T)
    where E: std::marker::Destruct, T: std::marker::Destruct
    ensures v == (match r { Ok(x) => x, Err(_) => d });
