use std::path::{Path, PathBuf};
use std::io::ErrorKind;
use std::fs::{File, OpenOptions};
use std::time::SystemTime;
// ---- trusted prelude: the OS side (std::path, std::fs) is opaque; only the shape of the path handed to the OS is specified
#[verifier::external_type_specification]
#[verifier::external_body]
pub struct ExPathBuf(std::path::PathBuf);
#[verifier::external_type_specification]
#[verifier::external_body]
pub struct ExPath(std::path::Path);
#[verifier::external_type_specification]
#[verifier::external_body]
pub struct ExFsMetadata(std::fs::Metadata);
/// `root.join(rel)`: for a `rel` that does not start with '/' this is the path below root (PathBuf::join replaces the base only for absolute arguments)
pub uninterp spec fn path_join(root: &Path, rel: Seq<char>) -> PathBuf;
pub uninterp spec fn as_ref_path_view<P>(p: P) -> Seq<char>;
pub broadcast axiom fn axiom_as_ref_path_str(s: &str) ensures #[trigger] as_ref_path_view::<&str>(s) == s@;
#[verifier::allow(undeclared_external_trait)]
pub assume_specification<P: AsRef<Path>> [Path::join] (p: &Path, path: P) -> (r: PathBuf)
    ensures r == path_join(p, as_ref_path_view(path));
pub uninterp spec fn pb_as_path(p: &PathBuf) -> &Path;
pub assume_specification [<PathBuf as std::ops::Deref>::deref] (p: &PathBuf) -> (r: &Path)
    ensures r == pb_as_path(p);
#[verifier::allow(undeclared_external_trait)]
pub assume_specification<P: AsRef<Path>> [std::fs::create_dir] (p: P) -> (r: std::io::Result<()>);
#[verifier::allow(undeclared_external_trait)]
pub assume_specification<P: AsRef<Path>> [std::fs::metadata] (p: P) -> (r: std::io::Result<std::fs::Metadata>);
pub assume_specification [std::fs::Metadata::is_dir] (m: &std::fs::Metadata) -> (r: bool);
pub assume_specification<T, E> [std::result::Result::<T, E>::unwrap_or] (r: std::result::Result<T, E>, d: T) -> (v: T)
    where E: std::marker::Destruct, T: std::marker::Destruct
    ensures v == (match r { Ok(x) => x, Err(_) => d });
#[verifier::external_type_specification]
#[verifier::external_body]
pub struct ExFile(std::fs::File);
#[verifier::external_type_specification]
#[verifier::external_body]
pub struct ExOpenOptions(std::fs::OpenOptions);
/// which primitive produced a handle: the abstract "open mode" of a File (create = truncating create)
pub enum OpenMode { Read, CreateTruncate, Append }
pub uninterp spec fn file_mode(f: std::fs::File) -> OpenMode;
pub uninterp spec fn file_path(f: std::fs::File) -> PathBuf;
pub uninterp spec fn oo_append(o: std::fs::OpenOptions) -> bool;
pub uninterp spec fn oo_plain(o: std::fs::OpenOptions) -> bool;
pub uninterp spec fn path_of<P>(p: P) -> PathBuf;
pub broadcast axiom fn axiom_path_of_pathbuf(p: PathBuf) ensures #[trigger] path_of::<PathBuf>(p) == p;
#[verifier::allow(undeclared_external_trait)]
pub assume_specification<P: AsRef<Path>> [std::fs::File::open] (p: P) -> (r: std::io::Result<std::fs::File>)
    ensures r is Ok ==> file_mode(r->Ok_0) is Read && file_path(r->Ok_0) == path_of(p);
#[verifier::allow(undeclared_external_trait)]
pub assume_specification<P: AsRef<Path>> [std::fs::File::create] (p: P) -> (r: std::io::Result<std::fs::File>)
    ensures r is Ok ==> file_mode(r->Ok_0) is CreateTruncate && file_path(r->Ok_0) == path_of(p);
pub assume_specification [std::fs::OpenOptions::new] () -> (r: std::fs::OpenOptions)
    ensures oo_plain(r) && !oo_append(r);
pub assume_specification [std::fs::OpenOptions::append] (o: &mut std::fs::OpenOptions, append: bool) -> (r: &mut std::fs::OpenOptions)
    ensures oo_append(*final(o)) == append, *final(r) == *final(o), oo_plain(*final(o)) == oo_plain(*old(o));
#[verifier::allow(undeclared_external_trait)]
pub assume_specification<P: AsRef<Path>> [std::fs::OpenOptions::open] (o: &std::fs::OpenOptions, p: P) -> (r: std::io::Result<std::fs::File>)
    ensures r is Ok && oo_append(*o) && oo_plain(*o) ==> file_mode(r->Ok_0) is Append && file_path(r->Ok_0) == path_of(p);
pub assume_specification [std::path::Path::exists] (p: &Path) -> (r: bool);
pub assume_specification [std::path::Path::metadata] (p: &Path) -> (r: std::io::Result<std::fs::Metadata>);
pub assume_specification [std::fs::Metadata::len] (m: &std::fs::Metadata) -> (r: u64);
pub assume_specification [std::fs::Metadata::modified] (m: &std::fs::Metadata) -> (r: std::io::Result<SystemTime>);
pub assume_specification [std::fs::Metadata::created] (m: &std::fs::Metadata) -> (r: std::io::Result<SystemTime>);
pub assume_specification [std::fs::Metadata::accessed] (m: &std::fs::Metadata) -> (r: std::io::Result<SystemTime>);
#[verifier::allow(undeclared_external_trait)]
pub assume_specification<P: AsRef<Path>> [std::fs::remove_file] (p: P) -> (r: std::io::Result<()>);
#[verifier::allow(undeclared_external_trait)]
pub assume_specification<P: AsRef<Path>> [std::fs::remove_dir] (p: P) -> (r: std::io::Result<()>);
#[verifier::allow(undeclared_external_trait)]
pub assume_specification<P: AsRef<Path>, Q: AsRef<Path>> [std::fs::copy] (p: P, q: Q) -> (r: std::io::Result<u64>);
#[verifier::allow(undeclared_external_trait)]
pub assume_specification<P: AsRef<Path>, Q: AsRef<Path>> [std::fs::rename] (p: P, q: Q) -> (r: std::io::Result<()>);

// rule R33 targets: the filetime crate's setters (an OS effect; nothing is assumed about the result)
#[verifier::external_body]
fn verif_set_file_mtime(p: PathBuf, t: SystemTime) -> (r: std::io::Result<()>)
{ unimplemented!() }
#[verifier::external_body]
fn verif_set_file_atime(p: PathBuf, t: SystemTime) -> (r: std::io::Result<()>)
{ unimplemented!() }
