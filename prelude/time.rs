use std::time::SystemTime;
// ---- trusted prelude: SystemTime is opaque (equality only)
#[verifier::external_type_specification]
#[verifier::external_body]
pub struct ExSystemTime(SystemTime);
pub assume_specification [SystemTime::now] () -> SystemTime;
