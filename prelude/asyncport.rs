use std::task::Poll;
// ---- rule R30g/R30i: the hand-written stream state machine of the async port (WalkDirIterator::poll_next)
/// a boxed in-flight future; which call it will perform when polled to completion is ghost state
#[verifier::external_body]
#[verifier::reject_recursive_types(T)]
pub struct PendingFuture<T> { _p: std::marker::PhantomData<T> }
pub enum FutCall { ReadDir(VfsPath), Metadata(VfsPath) }
pub uninterp spec fn fut_call<T>(f: PendingFuture<T>) -> FutCall;

/// `Box::pin(async move { d.read_dir().await })`: nothing happens until the future is polled
#[verifier::external_body]
fn verif_future_read_dir(d: VfsPath) -> (f: PendingFuture<Result<std::vec::IntoIter<VfsPath>, VfsError>>)
    ensures fut_call(f) == FutCall::ReadDir(d)
{ unimplemented!() }
#[verifier::external_body]
fn verif_future_metadata(p: VfsPath) -> (f: PendingFuture<Result<VfsMetadata, VfsError>>)
    ensures fut_call(f) == FutCall::Metadata(p)
{ unimplemented!() }

/// polling a listing stream: Pending (nothing consumed) or Ready(next item)
#[verifier::external_body]
fn verif_poll_stream(s: &mut std::vec::IntoIter<VfsPath>) -> (r: Poll<Option<VfsPath>>)
    ensures r is Pending ==> (*final(s)).remaining() == (*old(s)).remaining(),
            r matches Poll::Ready(None) ==> (*old(s)).remaining().len() == 0 && (*final(s)).remaining().len() == 0,
            r matches Poll::Ready(Some(x)) ==> (*old(s)).remaining().len() > 0 && x == (*old(s)).remaining()[0] && (*final(s)).remaining() == (*old(s)).remaining().skip(1),
            (*final(s)).decrease() is Some,
{ unimplemented!() }
