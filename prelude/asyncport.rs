// ---- rule R30g: a boxed in-flight future of the async port (stored between polls by the walk_dir stream); opaque
#[verifier::external_body]
pub struct PendingFuture { _p: u8 }
