use vstd::string::*;
use vstd::utf8::*;
use vstd::std_specs::iter::IteratorSpec;
use vstd::slice::SliceIndexSpec;
use core::ops::{Range, RangeTo, RangeFrom, Index};
use core::slice::SliceIndex;
use std::str::pattern::{Pattern, ReverseSearcher};
// ===================== trusted prelude: str ======================
/// byte offset of char position k in the UTF-8 encoding of cs
pub open spec fn byte_off(cs: Seq<char>, k: int) -> int { encode_utf8(cs.subrange(0, k)).len() as int }

pub uninterp spec fn pat_as_char<P>(p: P) -> Option<char>;
pub broadcast axiom fn axiom_pat_char(c: char)
    ensures #[trigger] pat_as_char::<char>(c) == Some(c);

#[verifier::allow(undeclared_external_trait)]
pub assume_specification<P: Pattern> [str::rfind] (s: &str, p: P) -> (r: Option<usize>)
    where for<'a> <P as Pattern>::Searcher<'a>: ReverseSearcher<'a>
    ensures pat_as_char(p) matches Some(c) ==> ((r is None <==> last_index_of(s@, c) < 0) && (r matches Some(b) ==> b as int == byte_off(s@, last_index_of(s@, c))));

#[verifier::allow(undeclared_external_trait)]
pub assume_specification<P: Pattern> [str::starts_with] (s: &str, p: P) -> (r: bool)
    ensures pat_as_char(p) matches Some(c) ==> r == (s@.len() > 0 && s@[0] == c),
            pat_as_str(p) matches Some(t) ==> r == t.is_prefix_of(s@);
#[verifier::allow(undeclared_external_trait)]
pub assume_specification<P: Pattern> [str::ends_with] (s: &str, p: P) -> (r: bool)
    where for<'a> <P as Pattern>::Searcher<'a>: ReverseSearcher<'a>
    ensures pat_as_char(p) matches Some(c) ==> r == (s@.len() > 0 && s@.last() == c),
            pat_as_str(p) matches Some(t) ==> r == t.is_suffix_of(s@);
pub assume_specification<I: SliceIndex<str>> [<str as Index<I>>::index] (s: &str, idx: I) -> (r: &<I as SliceIndex<str>>::Output)
   ensures idx.index_postcondition(s, r);

// char-position / byte-offset bridge (facts of UTF-8; trusted)
pub broadcast axiom fn axiom_byte_off_boundary(s: &str, k: int)
    requires 0 <= k <= s@.len()
    ensures 0 <= #[trigger] byte_off(s@, k) <= s.spec_bytes().len(),
            is_char_boundary(s.spec_bytes(), byte_off(s@, k));
pub broadcast axiom fn axiom_slice_to_in_bounds(s: &str, k: int, idx: usize)
    requires 0 <= k <= s@.len(), idx as int == byte_off(s@, k)
    ensures #![trigger str_slice_in_bounds(&(..idx), s), byte_off(s@, k)] str_slice_in_bounds(&(..idx), s);
pub broadcast axiom fn axiom_slice_from_in_bounds(s: &str, k: int, idx: usize)
    requires 0 <= k <= s@.len(), idx as int == byte_off(s@, k)
    ensures #![trigger str_slice_in_bounds(&(idx..), s), byte_off(s@, k)] str_slice_in_bounds(&(idx..), s);
pub broadcast axiom fn axiom_prefix_chars(s: &str, t: &str, k: int)
    requires 0 <= k <= s@.len(), t.spec_bytes() == s.spec_bytes().subrange(0, #[trigger] byte_off(s@, k))
    ensures #[trigger] t@ == s@.subrange(0, k);
pub broadcast axiom fn axiom_suffix_chars(s: &str, t: &str, k: int)
    requires 0 <= k <= s@.len(), t.spec_bytes() == s.spec_bytes().subrange(#[trigger] byte_off(s@, k), s.spec_bytes().len() as int)
    ensures #[trigger] t@ == s@.subrange(k, s@.len() as int);
pub broadcast axiom fn axiom_byte_off_succ_ascii(cs: Seq<char>, k: int)
    requires 0 <= k < cs.len(), cs[k] == '/'
    ensures #[trigger] byte_off(cs, k + 1) == byte_off(cs, k) + 1;


// ===================== trusted: split stand-in (rule R6) ======================
#[verifier::external_body]
fn verif_split<'a>(s: &'a str, c: char) -> (r: Vec<&'a str>)
    ensures r@.len() == split_on(s@, c).len(),
            forall|i: int| 0 <= i < r@.len() ==> (#[trigger] r@[i])@ == split_on(s@, c)[i],
{ s.split(c).collect() }

// utf8 length facts (trusted)
pub broadcast axiom fn axiom_bytes_len(s: &str)
    ensures s@.len() <= #[trigger] s.spec_bytes().len(), s.spec_bytes().len() <= usize::MAX,
            (s.spec_bytes().len() <= 1 ==> s@.len() == s.spec_bytes().len()),
            (s@.len() == 1 && s@[0] == '/' ==> s.spec_bytes().len() == 1);

// Seq-level variants (usable where only a String / Seq<char> is at hand)
pub broadcast axiom fn axiom_byte_off_le(cs: Seq<char>, k: int)
    requires 0 <= k <= cs.len()
    ensures 0 <= #[trigger] byte_off(cs, k) <= encode_utf8(cs).len();
pub broadcast axiom fn axiom_byte_off_zero(cs: Seq<char>)
    ensures #[trigger] byte_off(cs, 0) == 0;
pub axiom fn axiom_string_len_fits(s: String)
    ensures encode_utf8(s@).len() <= usize::MAX;
// rule R25 target
pub open spec fn rsplitn2_spec(s: Seq<char>, c: char) -> Seq<Seq<char>> {
    if last_index_of(s, c) < 0 { seq![s] } else { seq![s.subrange(last_index_of(s, c) + 1, s.len() as int), s.subrange(0, last_index_of(s, c))] }
}
#[verifier::external_body]
fn verif_rsplitn<'a>(s: &'a str, n: usize, c: char) -> (r: std::vec::IntoIter<&'a str>)
    requires n == 2
    ensures r.remaining().len() == rsplitn2_spec(s@, c).len(),
            forall|i: int| 0 <= i < r.remaining().len() ==> (#[trigger] r.remaining()[i])@ == rsplitn2_spec(s@, c)[i],
{ s.rsplitn(n, c).collect::<Vec<_>>().into_iter() }
// a str value is determined by its characters (needed for string-literal patterns, which compare str values)
pub axiom fn axiom_str_ext(a: &str, b: &str)
    ensures a@ == b@ ==> a == b;
// ---- String/str comparisons, string patterns, byte length (used by MemoryFS::read_dir)
pub uninterp spec fn pat_as_str<P>(p: P) -> Option<Seq<char>>;
pub broadcast axiom fn axiom_pat_string_ref(s: &String)
    ensures #[trigger] pat_as_str::<&String>(s) == Some(s@);
pub broadcast axiom fn axiom_pat_str(s: &str)
    ensures #[trigger] pat_as_str::<&str>(s) == Some(s@);
pub broadcast axiom fn axiom_pat_char_not_str(c: char)
    ensures #[trigger] pat_as_str::<char>(c) is None;
#[verifier::allow(undeclared_external_trait)]
pub assume_specification<P: Pattern> [str::contains] (s: &str, p: P) -> (r: bool)
    ensures pat_as_char(p) matches Some(c) ==> r == s@.contains(c);
pub assume_specification [std::string::String::len] (s: &std::string::String) -> (r: usize)
    ensures r == encode_utf8(s@).len();
pub axiom fn axiom_string_str_eq_obeys() ensures <String as vstd::std_specs::cmp::PartialEqSpec<str>>::obeys_eq_spec();
pub broadcast axiom fn axiom_string_str_eq(a: String, b: &str)
    ensures #[trigger] <String as vstd::std_specs::cmp::PartialEqSpec<str>>::eq_spec(&a, b) == (a@ == b@);
// rule R7 targets: concatenation of string-like Display values
#[verifier::external_body]
fn verif_concat2(a: &str, b: &str) -> (r: String)
    ensures r@ == a@ + b@
{ format!("{}{}", a, b) }
#[verifier::external_body]
fn verif_concat3(a: &str, b: &str, c: &str) -> (r: String)
    ensures r@ == a@ + b@ + c@
{ format!("{}{}{}", a, b, c) }
#[verifier::external_body]
fn verif_concat4(a: &str, b: &str, c: &str, d: &str) -> (r: String)
    ensures r@ == a@ + b@ + c@ + d@
{ format!("{}{}{}{}", a, b, c, d) }
#[verifier::external_body]
fn verif_concat5(a: &str, b: &str, c: &str, d: &str, e: &str) -> (r: String)
    ensures r@ == a@ + b@ + c@ + d@ + e@
{ format!("{}{}{}{}{}", a, b, c, d, e) }
// Display of Arc<str> is the string itself
pub broadcast axiom fn axiom_to_string_arc_str(t: &std::sync::Arc<str>, r: String)
    ensures #[trigger] to_string_from_display_ensures::<std::sync::Arc<str>>(t, r) <==> r@ == t@;
// ---- str::find and byte-offset arithmetic (used by VfsPath::create_dir_all)
#[verifier::allow(undeclared_external_trait)]
pub assume_specification<P: Pattern> [str::find] (s: &str, p: P) -> (r: Option<usize>)
    ensures pat_as_char(p) matches Some(c) ==> ((r is None <==> first_index_of(s@, c) < 0) && (r matches Some(b) ==> b as int == byte_off(s@, first_index_of(s@, c))));
pub broadcast axiom fn axiom_byte_off_add(cs: Seq<char>, a: int, k: int)
    requires 0 <= a <= cs.len(), 0 <= k <= cs.len() - a
    ensures #[trigger] byte_off(cs.subrange(a, cs.len() as int), k) + byte_off(cs, a) == byte_off(cs, a + k);
pub broadcast axiom fn axiom_byte_off_end(s: &str)
    ensures #[trigger] byte_off(s@, s@.len() as int) == s.spec_bytes().len(), s.spec_bytes().len() <= usize::MAX, byte_off(s@, 0) == 0;
pub broadcast axiom fn axiom_byte_off_mono(cs: Seq<char>, a: int, b: int)
    requires 0 <= a < b <= cs.len()
    ensures #[trigger] byte_off(cs, a) < #[trigger] byte_off(cs, b);
// ---- suffix patterns and UTF-8 length arithmetic (OverlayFS::read_dir strips the "_wo" suffix by byte length)
pub broadcast axiom fn axiom_encode_concat(a: Seq<char>, b: Seq<char>)
    ensures #[trigger] encode_utf8(a + b).len() == encode_utf8(a).len() + encode_utf8(b).len();
pub broadcast axiom fn axiom_ascii_one_byte(c: char)
    requires (c as u32) < 128
    ensures #[trigger] encode_utf8(seq![c]).len() == 1;
// rule R32 target: same call; assumed spec = std: `str::len` is the length in bytes of the UTF-8 encoding
#[verifier::external_body]
fn verif_str_len(s: &str) -> (r: usize)
    ensures r == encode_utf8(s@).len()
{ s.len() }
