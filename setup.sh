#!/bin/bash
# offline setup: nothing to download; warm nothing except a sanity check that the tools are present
set -e
cd "$(dirname "$0")"
command -v verus >/dev/null || { echo "verus not on PATH"; exit 1; }
python3 -c "import json" 
mkdir -p build evidence replays
# pre-build the bounded-oracle / witness crate (used on violations, undecided runs and in the thorough tier)
( cd replay && CARGO_NET_OFFLINE=true cargo build --offline --release --bin oracle --bin adiff >/dev/null 2>&1 ) || echo "warning: replay crate did not build (bounded fallback unavailable)"
echo "setup ok"
