#!/bin/bash
# offline setup: nothing to download; warm nothing except a sanity check that the tools are present
set -e
cd "$(dirname "$0")"
command -v verus >/dev/null || { echo "verus not on PATH"; exit 1; }
python3 -c "import json" 
mkdir -p build evidence replays
echo "setup ok"
