// ---- C07: the view of an adapter rooted at directory P of another filesystem
/// the tree seen below P: canonical q maps to the entry at P + q
pub open spec fn subtree(t: Tree, P: Seq<char>) -> Tree {
    IMap::new(|q: Seq<char>| canonical(q) && t.contains_key(P + q), |q: Seq<char>| t[P + q])
}
/// component-aware "q is P or below P"
pub open spec fn under(P: Seq<char>, q: Seq<char>) -> bool { q == P || (P + seq!['/']).is_prefix_of(q) }
/// C07 / C08 frame: nothing outside P changed in filesystem fs (entries and domain)
pub open spec fn changed_only_under(t1: Tree, t2: Tree, P: Seq<char>) -> bool {
    forall|q: Seq<char>| !under(P, q) ==> (#[trigger] t2.contains_key(q) == t1.contains_key(q)) && (t1.contains_key(q) ==> t2[q] == t1[q])
}
#[verifier::rlimit(60)]
pub proof fn lemma_canonical_concat(P: Seq<char>, q: Seq<char>)
    requires canonical(P), canonical(q)
    ensures canonical(P + q), q.len() > 0 ==> under(P, P + q) && q[0] == '/',
            q.len() > 0 ==> parent_spec(P + q) == P + parent_spec(q) && filename_spec(P + q) == filename_spec(q),
{
    let a = choose|cs: Seq<Comp>| all_names(cs) && P == render(cs);
    let b = choose|cs: Seq<Comp>| all_names(cs) && q == render(cs);
    lemma_render_concat(a, b);
    assert forall|i: int| 0 <= i < (a + b).len() implies is_name(#[trigger] (a + b)[i]) by {
        if i < a.len() { assert((a + b)[i] == a[i]); } else { assert((a + b)[i] == b[i - a.len()]); }
    }
    assert(all_names(a + b) && P + q == render(a + b));
    lemma_render_len(b);
    if q.len() > 0 {
        lemma_render_left(b);
        assert(q[0] == '/');
        assert((P + seq!['/']).is_prefix_of(P + q)) by { assert((P + q).subrange(0, P.len() as int + 1) =~= P + seq!['/']); }
        lemma_canonical_split(q);
        let pq = parent_spec(q);
        let f = filename_spec(q);
        assert(P + q =~= child_path(P + pq, f));
        lemma_child_path_parent(P + pq, f);
    }
}
pub proof fn lemma_concat_injective(P: Seq<char>, q1: Seq<char>, q2: Seq<char>)
    requires P + q1 == P + q2
    ensures q1 == q2
{
    assert(q1 =~= (P + q1).subrange(P.len() as int, (P + q1).len() as int));
    assert(q2 =~= (P + q2).subrange(P.len() as int, (P + q2).len() as int));
}
/// a path at or below P (both canonical) is P + q for a canonical q
pub proof fn lemma_under_decompose(P: Seq<char>, x: Seq<char>)
    requires canonical(P), canonical(x), under(P, x)
    ensures exists|q: Seq<char>| canonical(q) && x == P + q
{
    let a = choose|cs: Seq<Comp>| all_names(cs) && P == render(cs);
    let b = choose|cs: Seq<Comp>| all_names(cs) && x == render(cs);
    if x == P {
        assert(all_names(Seq::<Comp>::empty()) && render(Seq::<Comp>::empty()) =~= Seq::<char>::empty());
        assert(canonical(Seq::<char>::empty()));
        assert(x =~= P + Seq::<char>::empty());
    } else {
        lemma_under_components(a, b);
    }
}
/// helper: render(a) + "/" prefix of render(b) implies a is a component-prefix of b
#[verifier::rlimit(60)]
pub proof fn lemma_under_components(a: Seq<Comp>, b: Seq<Comp>)
    requires all_names(a), all_names(b), (render(a) + seq!['/']).is_prefix_of(render(b))
    ensures exists|q: Seq<char>| canonical(q) && render(b) == render(a) + q
    decreases b.len()
{
    lemma_render_len(b);
    let P = render(a);
    let x = render(b);
    if b.len() == 0 {
        assert((P + seq!['/']).len() <= x.len());
    } else {
        let bl = b.drop_last();
        lemma_all_names_drop_last(b);
        assert(is_name(b[b.len() - 1]));
        assert(x == render(bl) + seq!['/'] + b.last());
        if render(bl).len() >= (P + seq!['/']).len() {
            // the prefix lies inside render(bl)
            assert((P + seq!['/']).is_prefix_of(render(bl))) by {
                assert(render(bl).subrange(0, P.len() as int + 1) =~= x.subrange(0, P.len() as int + 1));
            }
            lemma_under_components(a, bl);
            let q0 = choose|q: Seq<char>| canonical(q) && render(bl) == P + q;
            let c0 = choose|cs: Seq<Comp>| all_names(cs) && q0 == render(cs);
            let c1 = c0.push(b.last());
            lemma_render_push(c0, b.last());
            assert forall|i: int| 0 <= i < c1.len() implies is_name(#[trigger] c1[i]) by { if i < c0.len() { assert(c1[i] == c0[i]); } }
            assert(all_names(c1));
            assert(x =~= P + render(c1));
            assert(canonical(render(c1)));
        } else {
            // P + "/" is longer than render(bl): then P == render(bl) (the '/' of the prefix must be the separator before b.last())
            lemma_last_index_concat(render(bl), b.last(), '/');
            lemma_last_index_of(x, '/');
            assert(x[P.len() as int] == '/') by { assert(x.subrange(0, P.len() as int + 1)[P.len() as int] == (P + seq!['/'])[P.len() as int]); }
            assert(P.len() <= render(bl).len());
            assert(P.len() == render(bl).len());
            assert(P =~= render(bl)) by { assert(x.subrange(0, P.len() as int) =~= P); assert(x.subrange(0, render(bl).len() as int) =~= render(bl)); }
            let c1 = seq![b.last()];
            assert(c1.drop_last() =~= Seq::<Comp>::empty());
            assert(render(c1.drop_last()) =~= Seq::<char>::empty());
            assert(c1.last() == b.last());
            assert(render(c1) =~= seq!['/'] + b.last());
            assert(all_names(c1));
            assert(x =~= P + render(c1));
            assert(canonical(render(c1)));
        }
    }
}
pub proof fn lemma_subtree_basic(t: Tree, P: Seq<char>, q: Seq<char>)
    requires canonical(P), canonical(q)
    ensures subtree(t, P).contains_key(q) == t.contains_key(P + q),
            t.contains_key(P + q) ==> subtree(t, P)[q] == t[P + q],
            under(P, P + q), canonical(P + q),
            q.len() > 0 ==> parent_spec(P + q) == P + parent_spec(q) && canonical(parent_spec(q)),
            q.len() == 0 ==> P + q == P,
{
    lemma_canonical_concat(P, q);
    if q.len() > 0 { lemma_parent_canonical(q); } else { assert(P + q =~= P); }
}
/// if t2 differs from t1 at most at P + q, then the views below P differ at most at q and nothing outside P changed
pub proof fn lemma_subtree_update(t1: Tree, t2: Tree, P: Seq<char>, q: Seq<char>)
    requires canonical(P), canonical(q),
             forall|x: Seq<char>| x != P + q ==> (#[trigger] t2.contains_key(x) == t1.contains_key(x)) && (t1.contains_key(x) ==> t2[x] == t1[x]),
    ensures forall|y: Seq<char>| y != q ==> (#[trigger] subtree(t2, P).contains_key(y) == subtree(t1, P).contains_key(y)) && (subtree(t1, P).contains_key(y) ==> subtree(t2, P)[y] == subtree(t1, P)[y]),
            changed_only_under(t1, t2, P),
{
    lemma_subtree_basic(t1, P, q);
    assert forall|y: Seq<char>| y != q implies (#[trigger] subtree(t2, P).contains_key(y) == subtree(t1, P).contains_key(y)) && (subtree(t1, P).contains_key(y) ==> subtree(t2, P)[y] == subtree(t1, P)[y]) by {
        if P + y == P + q { lemma_concat_injective(P, y, q); }
    }
}
pub proof fn lemma_subtree_same(t1: Tree, t2: Tree, P: Seq<char>)
    requires t2 =~= t1
    ensures subtree(t2, P) =~= subtree(t1, P), changed_only_under(t1, t2, P)
{}
pub proof fn lemma_subtree_same_mod_accessed(t1: Tree, t2: Tree, P: Seq<char>)
    requires same_modulo_accessed(t1, t2)
    ensures same_modulo_accessed(subtree(t1, P), subtree(t2, P))
{
    assert(subtree(t1, P).dom() =~= subtree(t2, P).dom());
}
/// in a well-formed tree the children of P + q are exactly the children of q in the view below P
pub proof fn lemma_subtree_children(t: Tree, P: Seq<char>, q: Seq<char>, n: Seq<char>)
    requires wf(t), canonical(P), canonical(q)
    ensures is_child(subtree(t, P), q, n) == is_child(t, P + q, n)
{
    lemma_canonical_concat(P, q);
    assert(P + child_path(q, n) =~= child_path(P + q, n));
    if is_child(t, P + q, n) {
        let x = child_path(P + q, n);
        assert(canonical(x));
        lemma_canonical_split(x);
        lemma_child_path_parent(P + q, n);
        // n is the last component of a canonical path, hence a name; q + "/" + n is canonical
        let cs = choose|cs: Seq<Comp>| all_names(cs) && q == render(cs);
        lemma_render_push(cs, n);
        assert forall|i: int| 0 <= i < cs.push(n).len() implies is_name(#[trigger] cs.push(n)[i]) by { if i < cs.len() { assert(cs.push(n)[i] == cs[i]); } }
        assert(child_path(q, n) =~= render(cs.push(n)));
        assert(canonical(child_path(q, n)));
    }
}
pub proof fn lemma_subtree_no_children(t: Tree, P: Seq<char>, q: Seq<char>)
    requires wf(t), canonical(P), canonical(q)
    ensures no_children(subtree(t, P), q) == no_children(t, P + q)
{
    assert forall|n: Seq<char>| is_child(subtree(t, P), q, n) == is_child(t, P + q, n) by { lemma_subtree_children(t, P, q, n); }
}
pub proof fn lemma_under_child(p: Seq<char>, n: Seq<char>)
    ensures under(p, child_path(p, n))
{
    assert(child_path(p, n).subrange(0, p.len() as int + 1) =~= p + seq!['/']);
}
pub proof fn lemma_under_trans(a: Seq<char>, b: Seq<char>, c: Seq<char>)
    requires under(a, b), under(b, c)
    ensures under(a, c)
{
    if b != a && c != b {
        let pa = a + seq!['/'];
        let pb = b + seq!['/'];
        assert(c.subrange(0, pa.len() as int) =~= b.subrange(0, pa.len() as int)) by {
            assert(c.subrange(0, pb.len() as int) =~= pb);
            assert(b.subrange(0, pa.len() as int) =~= pa);
            assert forall|i: int| 0 <= i < pa.len() implies c[i] == b[i] by { assert(c.subrange(0, pb.len() as int)[i] == pb[i]); }
        }
        assert(c.subrange(0, pa.len() as int) =~= pa);
    }
}
pub proof fn lemma_changed_under_trans(t1: Tree, t2: Tree, t3: Tree, P: Seq<char>)
    requires changed_only_under(t1, t2, P), changed_only_under(t2, t3, P)
    ensures changed_only_under(t1, t3, P)
{}
pub proof fn lemma_changed_under_weaken(t1: Tree, t2: Tree, P: Seq<char>, sub: Seq<char>)
    requires changed_only_under(t1, t2, sub), under(P, sub)
    ensures changed_only_under(t1, t2, P)
{
    assert forall|q: Seq<char>| !under(P, q) implies !under(sub, q) by {
        if under(sub, q) { lemma_under_trans(P, sub, q); }
    }
}
/// a single-entry change at d is a change under any P with under(P, d)
pub proof fn lemma_changed_at_under(t1: Tree, t2: Tree, P: Seq<char>, d: Seq<char>)
    requires under(P, d), forall|q: Seq<char>| q != d ==> (#[trigger] t2.contains_key(q) == t1.contains_key(q)) && (t1.contains_key(q) ==> t2[q] == t1[q])
    ensures changed_only_under(t1, t2, P)
{}
// ---- ancestors in well-formed trees (used for the OverlayFS frame when layers share a filesystem)
#[verifier::rlimit(60)]
pub proof fn lemma_under_parent(q: Seq<char>, x: Seq<char>)
    requires canonical(x), x.len() > 0, under(q, x), q != x
    ensures under(q, parent_spec(x))
{
    lemma_canonical_split(x);
    let par = parent_spec(x);
    let name = filename_spec(x);
    let qs = q + seq!['/'];
    assert(x == par + seq!['/'] + name);
    assert(x.subrange(0, qs.len() as int) =~= qs);
    if q.len() == par.len() {
        assert(q =~= par) by { assert(x.subrange(0, q.len() as int) =~= q); assert(x.subrange(0, par.len() as int) =~= par); }
    } else if q.len() < par.len() {
        assert(par.subrange(0, qs.len() as int) =~= qs) by {
            assert forall|i: int| 0 <= i < qs.len() implies par[i] == qs[i] by { assert(x.subrange(0, qs.len() as int)[i] == x[i]); assert(x[i] == par[i]); }
        }
    } else {
        let i = q.len() as int;
        assert(x[i] == '/') by { assert(x.subrange(0, qs.len() as int)[i] == qs[i]); }
        assert(x[i] == name[i - par.len() - 1]);
        assert(name.contains('/'));
    }
}
pub proof fn lemma_wf_ancestor(t: Tree, x: Seq<char>, q: Seq<char>)
    requires wf(t), t.contains_key(x), under(q, x)
    ensures t.contains_key(q), q != x ==> is_dir_at(t, q)
    decreases x.len()
{
    if q != x {
        assert(x.len() > 0) by { if x.len() == 0 { assert((q + seq!['/']).len() <= x.len()); } }
        assert(canonical(x) && is_dir_at(t, parent_spec(x)));
        lemma_under_parent(q, x);
        lemma_canonical_split(x);
        assert(parent_spec(x).len() < x.len());
        lemma_wf_ancestor(t, parent_spec(x), q);
    }
}
pub proof fn lemma_cut_comparable(R: Seq<char>, p: Seq<char>, e: int)
    requires under(R, p), is_cut(p, e)
    ensures under(R, p.subrange(0, e)) || under(p.subrange(0, e), R)
{
    let q = p.subrange(0, e);
    let rs = R + seq!['/'];
    if p == R {
        if e == p.len() { assert(q =~= R); } else {
            assert((q + seq!['/']).is_prefix_of(R)) by { assert(R.subrange(0, e + 1) =~= q + seq!['/']); }
        }
    } else {
        assert(p.subrange(0, rs.len() as int) =~= rs);
        if e == R.len() {
            assert(q =~= R) by { assert forall|i: int| 0 <= i < e implies q[i] == R[i] by { assert(p.subrange(0, rs.len() as int)[i] == rs[i]); } }
        } else if e > R.len() {
            assert(q.subrange(0, rs.len() as int) =~= rs) by {
                assert forall|i: int| 0 <= i < rs.len() implies q[i] == rs[i] by { assert(p.subrange(0, rs.len() as int)[i] == rs[i]); }
            }
        } else {
            assert(R.subrange(0, e + 1) =~= q + seq!['/']) by {
                assert forall|i: int| 0 <= i < e + 1 implies R[i] == (q + seq!['/'])[i] by { assert(p.subrange(0, rs.len() as int)[i] == rs[i]); }
            }
        }
    }
}
/// create_dir_all(p) below an existing root R of a well-formed tree changes nothing outside R
pub proof fn lemma_frame_ok_under(t1: Tree, t2: Tree, R: Seq<char>, p: Seq<char>)
    requires wf(t1), t1.contains_key(R), under(R, p), frame_ok(t1, t2, p)
    ensures changed_only_under(t1, t2, R)
{
    assert forall|q: Seq<char>| !under(R, q) implies (#[trigger] t2.contains_key(q) == t1.contains_key(q)) && (t1.contains_key(q) ==> t2[q] == t1[q]) by {
        if t2.contains_key(q) && !t1.contains_key(q) {
            let e = choose|e: int| is_cut(p, e) && q == #[trigger] p.subrange(0, e);
            lemma_cut_comparable(R, p, e);
            lemma_wf_ancestor(t1, R, q);
        }
    }
}
/// a common suffix cancels
pub proof fn lemma_concat_injective_right(a: Seq<char>, b: Seq<char>, s: Seq<char>)
    requires a + s == b + s
    ensures a == b
{
    assert((a + s).len() == a.len() + s.len() && (b + s).len() == b.len() + s.len());
    assert forall|i: int| 0 <= i < a.len() implies a[i] == b[i] by {
        assert((a + s)[i] == a[i]);
        assert((b + s)[i] == b[i]);
    }
    assert(a =~= b);
}
