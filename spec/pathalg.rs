// ===================== spec library ======================
pub type Comp = Seq<char>;

pub open spec fn last_index_of(p: Seq<char>, c: char) -> int
    decreases p.len()
{
    if p.len() == 0 { -1 } else if p.last() == c { p.len() - 1 } else { last_index_of(p.drop_last(), c) }
}
pub proof fn lemma_last_index_of(p: Seq<char>, c: char)
    ensures -1 <= last_index_of(p, c) < p.len(),
            last_index_of(p, c) >= 0 ==> p[last_index_of(p, c)] == c,
            forall|j: int| last_index_of(p, c) < j < p.len() ==> p[j] != c,
            (last_index_of(p, c) >= 0) == p.contains(c),
    decreases p.len()
{
    if p.len() == 0 {
    } else if p.last() == c {
        assert(p[p.len() - 1] == c);
    } else {
        lemma_last_index_of(p.drop_last(), c);
        let q = p.drop_last();
        assert forall|j: int| last_index_of(p, c) < j < p.len() implies p[j] != c by {
            if j < q.len() { assert(q[j] == p[j]); }
        }
        if q.contains(c) { let i = choose|i: int| 0 <= i < q.len() && q[i] == c; assert(p[i] == c); }
        if p.contains(c) { let i = choose|i: int| 0 <= i < p.len() && p[i] == c; assert(i < q.len()); assert(q[i] == c); }
    }
}
pub open spec fn first_index_of(p: Seq<char>, c: char) -> int
    decreases p.len()
{
    if p.len() == 0 { -1 } else if p[0] == c { 0 } else {
        let r = first_index_of(p.skip(1), c); if r < 0 { -1 } else { r + 1 } }
}
pub proof fn lemma_first_index_of(p: Seq<char>, c: char)
    ensures -1 <= first_index_of(p, c) < p.len(),
            first_index_of(p, c) >= 0 ==> p[first_index_of(p, c)] == c,
            forall|j: int| 0 <= j < first_index_of(p, c) ==> p[j] != c,
            first_index_of(p, c) < 0 ==> !p.contains(c),
    decreases p.len()
{
    if p.len() == 0 {
    } else if p[0] == c {
    } else {
        let q = p.skip(1);
        lemma_first_index_of(q, c);
        assert forall|j: int| 0 <= j < first_index_of(p, c) implies p[j] != c by {
            if j > 0 { assert(q[j - 1] == p[j]); }
        }
        if first_index_of(p, c) < 0 && p.contains(c) {
            let i = choose|i: int| 0 <= i < p.len() && p[i] == c; assert(i > 0); assert(q[i - 1] == c);
        }
    }
}

/// split on separator c (std `str::split(char)` semantics: n separators -> n+1 pieces, pieces may be empty)
pub open spec fn split_on(s: Seq<char>, c: char) -> Seq<Comp>
    decreases s.len()
{
    let i = first_index_of(s, c);
    if i < 0 { seq![s] } else if i >= s.len() { seq![s] } else { seq![s.subrange(0, i)] + split_on(s.subrange(i + 1, s.len() as int), c) }
}
pub proof fn lemma_split_no_sep(s: Seq<char>, c: char)
    ensures split_on(s, c).len() >= 1,
            forall|k: int| 0 <= k < split_on(s, c).len() ==> !(#[trigger] split_on(s, c)[k]).contains(c),
    decreases s.len()
{
    lemma_first_index_of(s, c);
    let i = first_index_of(s, c);
    if i < 0 {
    } else {
        let rest = s.subrange(i + 1, s.len() as int);
        lemma_split_no_sep(rest, c);
        let head = s.subrange(0, i);
        assert(!head.contains(c)) by {
            if head.contains(c) { let j = choose|j: int| 0 <= j < head.len() && head[j] == c; assert(s[j] == c); }
        }
        assert forall|k: int| 0 <= k < split_on(s, c).len() implies !(#[trigger] split_on(s, c)[k]).contains(c) by {
            if k == 0 { assert(split_on(s, c)[0] == head); } else { assert(split_on(s, c)[k] == split_on(rest, c)[k - 1]); }
        }
    }
}

pub open spec fn dot() -> Comp { seq!['.'] }
pub open spec fn dotdot() -> Comp { seq!['.', '.'] }
pub open spec fn is_name(c: Comp) -> bool { c.len() > 0 && !c.contains('/') && c != dot() && c != dotdot() }
pub open spec fn all_names(cs: Seq<Comp>) -> bool { forall|i: int| 0 <= i < cs.len() ==> is_name(#[trigger] cs[i]) }

pub open spec fn render(cs: Seq<Comp>) -> Seq<char>
    decreases cs.len()
{
    if cs.len() == 0 { Seq::empty() } else { render(cs.drop_last()) + seq!['/'] + cs.last() }
}
pub open spec fn canonical(p: Seq<char>) -> bool { exists|cs: Seq<Comp>| all_names(cs) && p == render(cs) }

pub open spec fn step(stack: Seq<Comp>, c: Comp) -> Seq<Comp> {
    if c == dot() || c.len() == 0 { stack }
    else if c == dotdot() { if stack.len() > 0 { stack.drop_last() } else { stack } }
    else { stack.push(c) }
}
pub open spec fn resolve_n(start: Seq<Comp>, comps: Seq<Comp>, n: int) -> Seq<Comp>
    decreases n
{
    if n <= 0 { start } else { step(resolve_n(start, comps, n - 1), comps[n - 1]) }
}

pub open spec fn parent_spec(p: Seq<char>) -> Seq<char> {
    if last_index_of(p, '/') >= 0 { p.subrange(0, last_index_of(p, '/')) } else { Seq::empty() }
}

pub proof fn lemma_last_index_concat(a: Seq<char>, b: Seq<char>, c: char)
    requires !b.contains(c)
    ensures last_index_of(a + seq![c] + b, c) == a.len()
    decreases b.len()
{
    let s = a + seq![c] + b;
    if b.len() == 0 {
        assert(s.last() == c);
    } else {
        assert(s.last() == b.last());
        assert(b.last() != c) by { assert(b[b.len() - 1] == b.last()); }
        let b2 = b.drop_last();
        assert(!b2.contains(c)) by { if b2.contains(c) { let j = choose|j: int| 0 <= j < b2.len() && b2[j] == c; assert(b[j] == c); } }
        assert(s.drop_last() =~= a + seq![c] + b2);
        lemma_last_index_concat(a, b2, c);
    }
}
pub proof fn lemma_parent_of_render(cs: Seq<Comp>)
    requires all_names(cs), cs.len() > 0
    ensures parent_spec(render(cs)) == render(cs.drop_last())
{
    let a = render(cs.drop_last());
    let b = cs.last();
    assert(is_name(cs[cs.len() - 1]));
    lemma_last_index_concat(a, b, '/');
    assert(render(cs) == a + seq!['/'] + b);
    assert((a + seq!['/'] + b).subrange(0, a.len() as int) =~= a);
}
pub proof fn lemma_parent_of_empty()
    ensures parent_spec(Seq::<char>::empty()) == Seq::<char>::empty()
{
}
pub proof fn lemma_render_push(cs: Seq<Comp>, c: Comp)
    ensures render(cs.push(c)) == render(cs) + seq!['/'] + c
{
    assert(cs.push(c).drop_last() =~= cs);
    assert(cs.push(c).last() == c);
}

pub open spec fn views(v: Seq<&str>) -> Seq<Comp> { Seq::new(v.len(), |i: int| v[i]@) }

pub open spec fn join_start(base: Seq<Comp>, arg: Seq<char>) -> Seq<Comp> {
    if arg.len() > 0 && arg[0] == '/' { Seq::empty() } else { base }
}
/// the lexical resolution of `arg` against a base whose components are `base`
pub open spec fn join_spec(base: Seq<Comp>, arg: Seq<char>) -> Option<Seq<Comp>> {
    if arg.len() == 0 { Some(base) }
    else if arg.len() > 1 && arg.last() == '/' { None }
    else { Some(resolve_n(join_start(base, arg), split_on(arg, '/'), split_on(arg, '/').len() as int)) }
}


pub proof fn lemma_render_len(cs: Seq<Comp>)
    ensures (render(cs).len() == 0) == (cs.len() == 0)
{
    if cs.len() > 0 { assert(render(cs) == render(cs.drop_last()) + seq!['/'] + cs.last()); }
}
#[verifier::rlimit(60)]
pub proof fn lemma_render_injective(a: Seq<Comp>, b: Seq<Comp>)
    requires all_names(a), all_names(b), render(a) == render(b)
    ensures a == b
    decreases a.len()
{
    lemma_render_len(a); lemma_render_len(b);
    if a.len() == 0 {
        assert(a =~= b);
    } else {
        let pa = render(a.drop_last()); let pb = render(b.drop_last());
        assert(is_name(a[a.len() - 1])); assert(is_name(b[b.len() - 1]));
        lemma_last_index_concat(pa, a.last(), '/');
        lemma_last_index_concat(pb, b.last(), '/');
        assert(render(a) == pa + seq!['/'] + a.last());
        assert(render(b) == pb + seq!['/'] + b.last());
        assert(pa.len() == pb.len());
        assert(pa =~= render(a).subrange(0, pa.len() as int));
        assert(pb =~= render(b).subrange(0, pb.len() as int));
        assert(a.last() =~= render(a).subrange(pa.len() as int + 1, render(a).len() as int));
        assert(b.last() =~= render(b).subrange(pb.len() as int + 1, render(b).len() as int));
        assert forall|i: int| 0 <= i < a.drop_last().len() implies is_name(#[trigger] a.drop_last()[i]) by { assert(a.drop_last()[i] == a[i]); }
        assert forall|i: int| 0 <= i < b.drop_last().len() implies is_name(#[trigger] b.drop_last()[i]) by { assert(b.drop_last()[i] == b[i]); }
        lemma_render_injective(a.drop_last(), b.drop_last());
        assert(a =~= a.drop_last().push(a.last()));
        assert(b =~= b.drop_last().push(b.last()));
    }
}

pub proof fn lemma_step_names(stack: Seq<Comp>, c: Comp)
    requires all_names(stack), !c.contains('/')
    ensures all_names(step(stack, c))
{
    if c == dot() || c.len() == 0 {} else if c == dotdot() {
        if stack.len() > 0 { assert forall|i: int| 0 <= i < stack.drop_last().len() implies is_name(#[trigger] stack.drop_last()[i]) by { assert(stack.drop_last()[i] == stack[i]); } }
    } else {
        assert forall|i: int| 0 <= i < stack.push(c).len() implies is_name(#[trigger] stack.push(c)[i]) by {
            if i < stack.len() { assert(stack.push(c)[i] == stack[i]); } else { assert(stack.push(c)[i] == c); }
        }
    }
}


/// last component of a canonical path ("" for the root)
pub open spec fn filename_spec(p: Seq<char>) -> Seq<char> {
    if last_index_of(p, '/') >= 0 { p.subrange(last_index_of(p, '/') + 1, p.len() as int) } else { p }
}

/// extension: text after the last '.' of the last component, unless there is no '.' or nothing before it
pub open spec fn ext_spec(p: Seq<char>) -> Option<Seq<char>> {
    let f = filename_spec(p);
    let i = last_index_of(f, '.');
    if i <= 0 { None } else { Some(f.subrange(i + 1, f.len() as int)) }
}

pub proof fn lemma_all_names_drop_last(cs: Seq<Comp>)
    requires all_names(cs), cs.len() > 0
    ensures all_names(cs.drop_last())
{
    assert forall|i: int| 0 <= i < cs.drop_last().len() implies is_name(#[trigger] cs.drop_last()[i]) by { assert(cs.drop_last()[i] == cs[i]); }
}
pub proof fn lemma_parent_canonical(p: Seq<char>)
    requires canonical(p)
    ensures canonical(parent_spec(p))
{
    let cs = choose|cs: Seq<Comp>| all_names(cs) && p == render(cs);
    if cs.len() > 0 {
        lemma_parent_of_render(cs);
        lemma_all_names_drop_last(cs);
    } else {
        lemma_parent_of_empty();
        assert(p =~= Seq::<char>::empty());
    }
}

// ---- confinement lemmas (ported from design-notes A9/A10)
pub proof fn lemma_first_index_concat(a: Seq<char>, r: Seq<char>, c: char)
    requires !a.contains(c)
    ensures first_index_of(a + seq![c] + r, c) == a.len()
    decreases a.len()
{
    let s = a + seq![c] + r;
    if a.len() == 0 {
        assert(s[0] == c);
    } else {
        assert(s[0] == a[0]);
        assert(a[0] != c);
        let a2 = a.skip(1);
        assert(!a2.contains(c)) by { if a2.contains(c) { let j = choose|j: int| 0 <= j < a2.len() && a2[j] == c; assert(a[j + 1] == c); } }
        assert(s.skip(1) =~= a2 + seq![c] + r);
        lemma_first_index_concat(a2, r, c);
    }
}
pub proof fn lemma_split_cons(a: Seq<char>, r: Seq<char>, c: char)
    requires !a.contains(c)
    ensures split_on(a + seq![c] + r, c) == seq![a] + split_on(r, c)
{
    let s = a + seq![c] + r;
    lemma_first_index_concat(a, r, c);
    assert(s.subrange(0, a.len() as int) =~= a);
    assert(s.subrange(a.len() as int + 1, s.len() as int) =~= r);
}
pub proof fn lemma_split_single(a: Seq<char>, c: char)
    requires !a.contains(c)
    ensures split_on(a, c) == seq![a]
{
    lemma_first_index_of(a, c);
    if first_index_of(a, c) >= 0 { assert(a[first_index_of(a, c)] == c); }
}
#[verifier::rlimit(60)]
pub proof fn lemma_render_left(qs: Seq<Comp>)
    requires qs.len() > 0
    ensures render(qs) == seq!['/'] + qs[0] + render(qs.skip(1))
    decreases qs.len()
{
    if qs.len() == 1 {
        assert(qs.drop_last() =~= Seq::<Comp>::empty());
        assert(qs.skip(1) =~= Seq::<Comp>::empty());
        assert(render(qs) =~= seq!['/'] + qs[0] + render(qs.skip(1)));
    } else {
        let dl = qs.drop_last();
        lemma_render_left(dl);
        assert(dl[0] == qs[0]);
        assert(dl.skip(1) =~= qs.skip(1).drop_last());
        assert(qs.skip(1).last() == qs.last());
        assert(render(qs.skip(1)) == render(qs.skip(1).drop_last()) + seq!['/'] + qs.last());
        assert(render(qs) =~= seq!['/'] + qs[0] + render(qs.skip(1)));
    }
}
/// relative form of a canonical path: drop the leading '/'
pub open spec fn rel(qs: Seq<Comp>) -> Seq<char> { render(qs).skip(1) }
#[verifier::rlimit(60)]
pub proof fn lemma_split_rel(qs: Seq<Comp>)
    requires all_names(qs), qs.len() > 0
    ensures split_on(rel(qs), '/') == qs, rel(qs).len() > 0, rel(qs)[0] != '/', rel(qs).last() != '/'
    decreases qs.len()
{
    lemma_render_left(qs);
    assert(is_name(qs[0]));
    let tail = qs.skip(1);
    assert(rel(qs) =~= qs[0] + render(tail));
    if qs.len() == 1 {
        assert(tail =~= Seq::<Comp>::empty());
        assert(rel(qs) =~= qs[0]);
        lemma_split_single(qs[0], '/');
        assert(qs =~= seq![qs[0]]);
        assert(qs[0].last() != '/') by { assert(qs[0][qs[0].len() - 1] == qs[0].last()); }
        assert(qs[0][0] != '/');
    } else {
        assert forall|i: int| 0 <= i < tail.len() implies is_name(#[trigger] tail[i]) by { assert(tail[i] == qs[i + 1]); }
        lemma_render_left(tail);
        lemma_split_rel(tail);
        assert(render(tail) =~= seq!['/'] + rel(tail));
        assert(rel(qs) =~= qs[0] + seq!['/'] + rel(tail));
        lemma_split_cons(qs[0], rel(tail), '/');
        assert(qs =~= seq![qs[0]] + tail);
        assert(rel(qs)[0] == qs[0][0]); assert(qs[0][0] != '/');
        assert(rel(qs).last() == rel(tail).last());
    }
}
pub proof fn lemma_resolve_names(start: Seq<Comp>, qs: Seq<Comp>, n: int)
    requires all_names(qs), 0 <= n <= qs.len()
    ensures resolve_n(start, qs, n) == start + qs.subrange(0, n)
    decreases n
{
    if n == 0 {
        assert(start + qs.subrange(0, 0) =~= start);
    } else {
        lemma_resolve_names(start, qs, n - 1);
        assert(is_name(qs[n - 1]));
        assert((start + qs.subrange(0, n - 1)).push(qs[n - 1]) =~= start + qs.subrange(0, n));
    }
}
pub proof fn lemma_render_concat(a: Seq<Comp>, b: Seq<Comp>)
    ensures render(a + b) == render(a) + render(b)
    decreases b.len()
{
    if b.len() == 0 {
        assert(a + b =~= a);
        assert(render(a) + render(b) =~= render(a));
    } else {
        lemma_render_concat(a, b.drop_last());
        assert((a + b).drop_last() =~= a + b.drop_last());
        assert((a + b).last() == b.last());
        assert(render(a + b) =~= render(a) + render(b));
    }
}
/// C07 confinement lemma: joining the relative form of a canonical path onto a base appends its components
pub proof fn lemma_join_of_relative(base: Seq<Comp>, qs: Seq<Comp>)
    requires all_names(qs), qs.len() > 0
    ensures join_spec(base, rel(qs)) == Some(base + qs)
{
    lemma_split_rel(qs);
    lemma_resolve_names(base, qs, qs.len() as int);
    assert(qs.subrange(0, qs.len() as int) =~= qs);
}


