// ---- cursor model (what C14 states; this is std::io::Cursor's documented behaviour)
pub open spec fn rd_avail(len: int, pos: int) -> int { if pos >= len { 0 } else { len - pos } }
pub open spec fn rd_count(len: int, pos: int, n: int) -> int { if n <= rd_avail(len, pos) { n } else { rd_avail(len, pos) } }
pub open spec fn rd_seek(len: int, pos: int, s: SeekFrom) -> Option<int> {
    let t = match s { SeekFrom::Start(o) => o as int, SeekFrom::Current(d) => pos + d, SeekFrom::End(d) => len + d };
    if 0 <= t <= u64::MAX { Some(t) } else { None }
}

/// std::io::Cursor<Vec<u8>>::write: overwrites/extends at the position, zero-filling a gap (the "growable cursor" of C14)
pub open spec fn cur_write_spec(buf: Seq<u8>, pos: int, data: Seq<u8>) -> Seq<u8> {
    let padded = if pos > buf.len() { buf + Seq::new((pos - buf.len()) as nat, |i: int| 0u8) } else { buf };
    let tail = if pos + data.len() < padded.len() { padded.subrange(pos + data.len(), padded.len() as int) } else { Seq::<u8>::empty() };
    padded.subrange(0, pos) + data + tail
}
