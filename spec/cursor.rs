// ---- cursor model (what C14 states; this is std::io::Cursor's documented behaviour)
pub open spec fn rd_avail(len: int, pos: int) -> int { if pos >= len { 0 } else { len - pos } }
pub open spec fn rd_count(len: int, pos: int, n: int) -> int { if n <= rd_avail(len, pos) { n } else { rd_avail(len, pos) } }
pub open spec fn rd_seek(len: int, pos: int, s: SeekFrom) -> Option<int> {
    let t = match s { SeekFrom::Start(o) => o as int, SeekFrom::Current(d) => pos + d, SeekFrom::End(d) => len + d };
    if 0 <= t <= u64::MAX { Some(t) } else { None }
}
