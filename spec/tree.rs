// ---- abstract file tree and the trait contract TC (one predicate per FileSystem method)
pub struct Node {
    pub is_dir: bool,
    pub bytes: Seq<u8>,
    pub created: Option<SystemTime>,
    pub modified: Option<SystemTime>,
    pub accessed: Option<SystemTime>,
}
pub type Tree = IMap<Seq<char>, Node>;

pub open spec fn slash() -> Seq<char> { seq!['/'] }
/// child path of directory d with bare name n
pub open spec fn child_path(d: Seq<char>, n: Seq<char>) -> Seq<char> { d + slash() + n }
/// a bare name: non-empty, no '/'
pub open spec fn bare(n: Seq<char>) -> bool { n.len() > 0 && !n.contains('/') }
/// n is the name of a direct child of d in t
pub open spec fn is_child(t: Tree, d: Seq<char>, n: Seq<char>) -> bool { bare(n) && t.contains_key(child_path(d, n)) }
pub open spec fn no_children(t: Tree, d: Seq<char>) -> bool { forall|n: Seq<char>| !is_child(t, d, n) }
/// non-root absolute path as the FileSystem trait receives it: starts with '/' (every non-empty canonical path does)
pub open spec fn abs_path(p: Seq<char>) -> bool { p.len() > 0 && p[0] == '/' }
pub open spec fn is_file_at(t: Tree, p: Seq<char>) -> bool { t.contains_key(p) && !t[p].is_dir }
pub open spec fn is_dir_at(t: Tree, p: Seq<char>) -> bool { t.contains_key(p) && t[p].is_dir }

/// C03: root is a directory; every other entry is canonical and has a parent that is a directory
pub open spec fn wf(t: Tree) -> bool {
    &&& is_dir_at(t, Seq::<char>::empty())
    &&& forall|p: Seq<char>| #[trigger] t.contains_key(p) && p.len() > 0 ==> canonical(p) && is_dir_at(t, parent_spec(p))
}

/// trees equal except for access times (observers may touch `accessed`)
pub open spec fn same_modulo_accessed(a: Tree, b: Tree) -> bool {
    &&& a.dom() =~= b.dom()
    &&& forall|p: Seq<char>| #[trigger] a.contains_key(p) ==> a[p].is_dir == b[p].is_dir && a[p].bytes == b[p].bytes && a[p].created == b[p].created && a[p].modified == b[p].modified
}

pub open spec fn kind_is_not_found(e: VfsError) -> bool { ekind(e) is FileNotFound }

// ---------------- TC: observers
pub open spec fn tc_exists(pre: Tree, p: Seq<char>, r: VfsResult<bool>, post: Tree) -> bool {
    post =~= pre && (r is Ok ==> r->Ok_0 == pre.contains_key(p)) && (r is Err ==> kind_neutral(r->Err_0))
}
pub open spec fn meta_matches(m: VfsMetadata, n: Node) -> bool {
    &&& (m.file_type is Directory) == n.is_dir
    &&& m.len == (if n.is_dir { 0 } else { n.bytes.len() as int })
    &&& m.created == n.created && m.modified == n.modified && m.accessed == n.accessed
}
pub open spec fn tc_metadata(pre: Tree, p: Seq<char>, r: VfsResult<VfsMetadata>, post: Tree) -> bool {
    &&& post =~= pre
    &&& (r is Ok ==> pre.contains_key(p) && meta_matches(r->Ok_0, pre[p]))
    &&& (r is Err && !pre.contains_key(p) ==> kind_is_not_found(r->Err_0))
    &&& (r is Err ==> kind_neutral(r->Err_0))
}
/// names is an enumeration of the children of p: bare names, each child exactly once
pub open spec fn lists_children(t: Tree, p: Seq<char>, names: Seq<Seq<char>>) -> bool {
    &&& forall|i: int| 0 <= i < names.len() ==> is_child(t, p, #[trigger] names[i])
    &&& forall|n: Seq<char>| is_child(t, p, n) ==> exists|i: int| 0 <= i < names.len() && names[i] == n
    &&& forall|i: int, j: int| 0 <= i < j < names.len() ==> names[i] != names[j]
    &&& (names.len() == 0 <==> no_children(t, p))
}
pub open spec fn string_views(v: Seq<String>) -> Seq<Seq<char>> { Seq::new(v.len(), |i: int| v[i]@) }
pub open spec fn tc_read_dir_ok(pre: Tree, p: Seq<char>, names: Seq<Seq<char>>, post: Tree) -> bool {
    post =~= pre && is_dir_at(pre, p) && lists_children(pre, p, names)
}
pub open spec fn tc_read_dir_err(pre: Tree, p: Seq<char>, e: VfsError, post: Tree) -> bool {
    post =~= pre && (!pre.contains_key(p) ==> kind_is_not_found(e)) && kind_neutral(e)
}
pub open spec fn tc_open_file_ok(pre: Tree, p: Seq<char>, bytes: Seq<u8>, pos: int, post: Tree) -> bool {
    is_file_at(pre, p) && bytes == pre[p].bytes && pos == 0 && same_modulo_accessed(pre, post)
}
pub open spec fn tc_open_file_err(pre: Tree, p: Seq<char>, e: VfsError, post: Tree) -> bool {
    same_modulo_accessed(pre, post) && (!pre.contains_key(p) ==> kind_is_not_found(e)) && kind_neutral(e)
}

// ---------------- TC: mutators
/// only create_dir classifies an occupied target; every other error is "kind neutral" (never DirectoryExists / FileExists),
/// which is what lets create_dir_all tolerate exactly DirectoryExists
pub open spec fn kind_neutral(e: VfsError) -> bool { !(ekind(e) is DirectoryExists) && !(ekind(e) is FileExists) }
pub open spec fn tc_create_dir(pre: Tree, p: Seq<char>, r: VfsResult<()>, post: Tree) -> bool {
    &&& (r is Ok ==> pre.contains_key(parent_spec(p)) && !pre.contains_key(p) && post.dom() =~= pre.dom().insert(p)
            && post[p].is_dir && post[p].bytes.len() == 0
            && (forall|q: Seq<char>| q != p && pre.contains_key(q) ==> #[trigger] post[q] == pre[q]))
    &&& (r is Err ==> post =~= pre
            && (ekind(r->Err_0) is DirectoryExists ==> is_dir_at(pre, p))
            && (ekind(r->Err_0) is FileExists ==> is_file_at(pre, p)))
}
/// completeness half (TC+): the documented precondition implies success, an occupied target is classified by its occupant
pub open spec fn tcp_create_dir(pre: Tree, p: Seq<char>, r: VfsResult<()>) -> bool {
    abs_path(p) && pre.contains_key(parent_spec(p)) ==> {
        &&& (!pre.contains_key(p) ==> r is Ok)
        &&& (is_file_at(pre, p) ==> r is Err && ekind(r->Err_0) is FileExists)
        &&& (is_dir_at(pre, p) ==> r is Err && ekind(r->Err_0) is DirectoryExists)
    }
}
pub open spec fn tc_create_file_ok(pre: Tree, p: Seq<char>, w_dest: Seq<char>, w_buf: Seq<u8>, w_pos: int, post: Tree) -> bool {
    &&& pre.contains_key(parent_spec(p)) && (!pre.contains_key(p) || is_file_at(pre, p))
    &&& post.dom() =~= pre.dom().insert(p) && !post[p].is_dir && post[p].bytes.len() == 0
    &&& (forall|q: Seq<char>| q != p && pre.contains_key(q) ==> #[trigger] post[q] == pre[q])
    &&& w_dest == p && w_buf.len() == 0 && w_pos == 0
}
pub open spec fn tcp_create_file(pre: Tree, p: Seq<char>, ok: bool) -> bool {
    abs_path(p) && pre.contains_key(parent_spec(p)) && (!pre.contains_key(p) || is_file_at(pre, p)) ==> ok
}
pub open spec fn tc_append_file_ok(pre: Tree, p: Seq<char>, w_dest: Seq<char>, w_buf: Seq<u8>, w_pos: int, post: Tree) -> bool {
    is_file_at(pre, p) && post =~= pre && w_dest == p && w_buf == pre[p].bytes && w_pos == pre[p].bytes.len()
}
pub open spec fn tc_fail_unchanged(pre: Tree, p: Seq<char>, e: VfsError, post: Tree) -> bool {
    post =~= pre && (!pre.contains_key(p) ==> kind_is_not_found(e)) && kind_neutral(e)
}
pub open spec fn tc_remove_file(pre: Tree, p: Seq<char>, r: VfsResult<()>, post: Tree) -> bool {
    &&& (r is Ok ==> is_file_at(pre, p) && post =~= pre.remove(p))
    &&& (r is Err ==> tc_fail_unchanged(pre, p, r->Err_0, post))
}
pub open spec fn tcp_remove_file(pre: Tree, p: Seq<char>, r: VfsResult<()>) -> bool { is_file_at(pre, p) ==> r is Ok }
pub open spec fn tc_remove_dir(pre: Tree, p: Seq<char>, r: VfsResult<()>, post: Tree) -> bool {
    &&& (r is Ok ==> is_dir_at(pre, p) && no_children(pre, p) && post =~= pre.remove(p))
    &&& (r is Err ==> tc_fail_unchanged(pre, p, r->Err_0, post))
}
pub open spec fn tcp_remove_dir(pre: Tree, p: Seq<char>, r: VfsResult<()>) -> bool { is_dir_at(pre, p) && no_children(pre, p) ==> r is Ok }

pub enum TimeField { Created, Modified, Accessed }
pub open spec fn with_time(n: Node, f: TimeField, t: SystemTime) -> Node {
    match f {
        TimeField::Created => Node { created: Some(t), ..n },
        TimeField::Modified => Node { modified: Some(t), ..n },
        TimeField::Accessed => Node { accessed: Some(t), ..n },
    }
}
pub open spec fn tc_set_time(pre: Tree, p: Seq<char>, f: TimeField, t: SystemTime, r: VfsResult<()>, post: Tree) -> bool {
    &&& (r is Ok ==> pre.contains_key(p) && post =~= pre.insert(p, with_time(pre[p], f, t)))
    &&& (r is Err ==> post =~= pre && kind_neutral(r->Err_0))
}
pub open spec fn tcp_set_time(pre: Tree, p: Seq<char>, r: VfsResult<()>) -> bool { pre.contains_key(p) ==> r is Ok }

/// publishing a write handle: destination becomes a file holding exactly the buffer; created/accessed of a previous entry are kept (C04, C14, C19)
pub open spec fn tc_publish(pre: Tree, dest: Seq<char>, buf: Seq<u8>, post: Tree) -> bool {
    &&& post.dom() =~= pre.dom().insert(dest)
    &&& !post[dest].is_dir && post[dest].bytes == buf
    &&& (pre.contains_key(dest) ==> post[dest].created == pre[dest].created && post[dest].accessed == pre[dest].accessed)
    &&& (forall|q: Seq<char>| q != dest && pre.contains_key(q) ==> #[trigger] post[q] == pre[q])
}

// ---------------- PC: what VfsPath adds on top of TC (parent is a directory), without the kind-soundness clauses that only a backend can give
pub open spec fn pc_create_dir(pre: Tree, p: Seq<char>, r: VfsResult<()>, post: Tree) -> bool {
    &&& (r is Ok ==> is_dir_at(pre, parent_spec(p)) && !pre.contains_key(p) && post.dom() =~= pre.dom().insert(p)
            && post[p].is_dir && post[p].bytes.len() == 0
            && (forall|q: Seq<char>| q != p && pre.contains_key(q) ==> #[trigger] post[q] == pre[q]))
    &&& (r is Err ==> post =~= pre
            && (ekind(r->Err_0) is DirectoryExists ==> is_dir_at(pre, p))
            && (ekind(r->Err_0) is FileExists ==> is_file_at(pre, p)))
}
/// exactness for a backend that does not fail spuriously (TC+): the call succeeds exactly when the tree meets its precondition,
/// and an occupied target is classified by its occupant (C01, C12)
pub open spec fn pc_create_dir_exact(pre: Tree, p: Seq<char>, r: VfsResult<()>) -> bool {
    abs_path(p) && is_dir_at(pre, parent_spec(p)) ==> {
        &&& (!pre.contains_key(p) ==> r is Ok)
        &&& (is_file_at(pre, p) ==> r is Err && ekind(r->Err_0) is FileExists)
        &&& (is_dir_at(pre, p) ==> r is Err && ekind(r->Err_0) is DirectoryExists)
    }
}

// ---------------- optional same-filesystem fast paths (FileSystem::copy_file / move_file / move_dir)
pub open spec fn node_same_mod_accessed(a: Node, b: Node) -> bool { a.is_dir == b.is_dir && a.bytes == b.bytes && a.created == b.created && a.modified == b.modified }
/// every entry other than d: present iff it was, same up to access times
pub open spec fn changed_only_at(t1: Tree, t2: Tree, d: Seq<char>) -> bool {
    forall|q: Seq<char>| q != d ==> (#[trigger] t2.contains_key(q) == t1.contains_key(q)) && (t1.contains_key(q) ==> node_same_mod_accessed(t1[q], t2[q]))
}
pub open spec fn tc_copy_file(pre: Tree, src: Seq<char>, dest: Seq<char>, r: VfsResult<()>, post: Tree) -> bool {
    &&& changed_only_at(pre, post, dest)
    &&& (r is Ok ==> is_file_at(pre, src) && is_file_at(post, dest) && post[dest].bytes == pre[src].bytes)
    &&& (r is Err && ekind(r->Err_0) is NotSupported ==> post =~= pre)
}
pub open spec fn changed_only_at2(t1: Tree, t2: Tree, a: Seq<char>, b: Seq<char>) -> bool {
    forall|q: Seq<char>| q != a && q != b ==> (#[trigger] t2.contains_key(q) == t1.contains_key(q)) && (t1.contains_key(q) ==> node_same_mod_accessed(t1[q], t2[q]))
}
pub open spec fn tc_move_file(pre: Tree, src: Seq<char>, dest: Seq<char>, r: VfsResult<()>, post: Tree) -> bool {
    &&& changed_only_at2(pre, post, src, dest)
    &&& (r is Ok ==> is_file_at(pre, src) && is_file_at(post, dest) && post[dest].bytes == pre[src].bytes && (src != dest ==> !post.contains_key(src)))
    &&& (r is Err && ekind(r->Err_0) is NotSupported ==> post =~= pre)
}
