// ---- OverlayFS bookkeeping paths (C08-C10)
pub open spec fn wo_dir_name() -> Comp { ".whiteout"@ }
pub open spec fn wo_suffix() -> Seq<char> { "_wo"@ }
/// components of the marker path for a canonical q = render(qs): [".whiteout"] + qs[..last] + [last + "_wo"]   (root: [".whiteout", "_wo"])
pub open spec fn marker_comps(qs: Seq<Comp>) -> Seq<Comp> {
    if qs.len() == 0 { seq![wo_dir_name(), wo_suffix()] } else { seq![wo_dir_name()] + qs.drop_last() + seq![qs.last() + wo_suffix()] }
}
/// the marker path below the upper root R for overlay path q: R + "/.whiteout" + q + "_wo"   (root: R + "/.whiteout/_wo")
pub open spec fn marker_path(R: Seq<char>, q: Seq<char>) -> Seq<char> {
    if q.len() == 0 { R + "/.whiteout/_wo"@ } else { R + "/.whiteout"@ + q + "_wo"@ }
}
pub proof fn lemma_wo_names()
    ensures is_name(wo_dir_name()), is_name(wo_suffix()),
            wo_dir_name() == seq!['.', 'w', 'h', 'i', 't', 'e', 'o', 'u', 't'], wo_suffix() == seq!['_', 'w', 'o'],
{
    reveal_strlit(".whiteout"); reveal_strlit("_wo");
    let a = seq!['.', 'w', 'h', 'i', 't', 'e', 'o', 'u', 't'];
    let b = seq!['_', 'w', 'o'];
    assert(".whiteout"@ =~= a);
    assert("_wo"@ =~= b);
    assert(!a.contains('/')) by { if a.contains('/') { let i = choose|i: int| 0 <= i < a.len() && a[i] == '/'; } }
    assert(!b.contains('/')) by { if b.contains('/') { let i = choose|i: int| 0 <= i < b.len() && b[i] == '/'; } }
    assert(a.len() == 9 && b.len() == 3);
    assert(a != dot()) by { assert(dot().len() == 1); }
    assert(a != dotdot()) by { assert(dotdot().len() == 2); }
    assert(b != dot()) by { assert(dot().len() == 1); }
    assert(b != dotdot()) by { assert(dotdot().len() == 2); }
}
pub proof fn lemma_marker_comps(qs: Seq<Comp>)
    requires all_names(qs)
    ensures all_names(marker_comps(qs)), marker_comps(qs).len() > 0,
            render(marker_comps(qs)) == marker_path(Seq::<char>::empty(), render(qs)),
{
    lemma_wo_names();
    reveal_strlit("/.whiteout/_wo"); reveal_strlit("/.whiteout"); reveal_strlit("_wo"); reveal_strlit(".whiteout");
    let e = Seq::<char>::empty();
    let m = marker_comps(qs);
    let w = wo_dir_name();
    let s = wo_suffix();
    assert(render(seq![w]) =~= seq!['/'] + w) by { assert(seq![w].drop_last() =~= Seq::<Comp>::empty()); assert(render(Seq::<Comp>::empty()) =~= e); }
    assert("/.whiteout"@ =~= seq!['/'] + w);
    if qs.len() == 0 {
        assert(m =~= seq![w].push(s));
        lemma_render_push(seq![w], s);
        assert forall|i: int| 0 <= i < m.len() implies is_name(#[trigger] m[i]) by {}
        assert(render(qs) =~= e);
        assert("/.whiteout/_wo"@ =~= seq!['/'] + w + seq!['/'] + s);
        assert(render(m) =~= e + "/.whiteout/_wo"@);
    } else {
        let dl = qs.drop_last();
        let l = qs.last();
        assert(is_name(qs[qs.len() - 1]));
        lemma_all_names_drop_last(qs);
        let ls = l + s;
        assert(!ls.contains('/')) by { if ls.contains('/') { let i = choose|i: int| 0 <= i < ls.len() && ls[i] == '/'; if i < l.len() { assert(l[i] == '/'); } else { assert(s[i - l.len()] == '/'); } } }
        assert(ls.len() >= 4);
        assert(ls != dot()) by { assert(dot().len() == 1); }
        assert(ls != dotdot()) by { assert(dotdot().len() == 2); }
        assert(is_name(ls));
        assert forall|i: int| 0 <= i < m.len() implies is_name(#[trigger] m[i]) by {
            if i == 0 { } else if i < 1 + dl.len() { assert(m[i] == dl[i - 1]); } else { assert(m[i] == ls); }
        }
        let head = seq![w] + dl;
        assert(m =~= head.push(ls));
        lemma_render_push(head, ls);
        lemma_render_concat(seq![w], dl);
        assert(render(qs) == render(dl) + seq!['/'] + l);
        assert(render(m) =~= e + "/.whiteout"@ + render(qs) + "_wo"@);
        lemma_render_len(qs);
    }
}
/// the string OverlayFS::whiteout_path joins onto the upper root is the relative form of the marker components
pub proof fn lemma_marker_arg(qs: Seq<Comp>)
    requires all_names(qs), qs.len() > 0
    ensures ".whiteout/"@ + render(qs).subrange(1, render(qs).len() as int) + "_wo"@ == rel(marker_comps(qs))
{
    lemma_marker_comps(qs);
    lemma_render_left(qs);
    reveal_strlit(".whiteout/"); reveal_strlit("/.whiteout"); reveal_strlit("_wo");
    let q = render(qs);
    assert(q[0] == '/');
    assert("/.whiteout"@.skip(1) + seq!['/'] =~= ".whiteout/"@);
    let full = Seq::<char>::empty() + "/.whiteout"@ + q + "_wo"@;
    assert(rel(marker_comps(qs)) =~= full.skip(1));
    assert(full.skip(1) =~= ".whiteout/"@ + q.subrange(1, q.len() as int) + "_wo"@);
}

/// components of the whiteout folder of q = render(qs): [".whiteout"] + qs; its relative form is the argument OverlayFS::read_dir joins
pub proof fn lemma_wo_folder(qs: Seq<Comp>)
    requires all_names(qs)
    ensures all_names(seq![wo_dir_name()] + qs),
            render(seq![wo_dir_name()] + qs) == "/.whiteout"@ + render(qs),
            rel(seq![wo_dir_name()] + qs) == ".whiteout"@ + render(qs),
{
    lemma_wo_names();
    reveal_strlit("/.whiteout"); reveal_strlit(".whiteout");
    let a = seq![wo_dir_name()];
    assert forall|i: int| 0 <= i < (a + qs).len() implies is_name(#[trigger] (a + qs)[i]) by {
        if i == 0 { assert((a + qs)[0] == wo_dir_name()); } else { assert((a + qs)[i] == qs[i - 1]); }
    }
    lemma_render_concat(a, qs);
    assert(a.drop_last() =~= Seq::<Comp>::empty());
    assert(render(Seq::<Comp>::empty()) =~= Seq::<char>::empty());
    assert(a.last() == wo_dir_name());
    assert(render(a) == render(a.drop_last()) + seq!['/'] + a.last());
    assert(render(a) =~= seq!['/'] + wo_dir_name());
    assert("/.whiteout"@ =~= seq!['/'] + ".whiteout"@);
    assert(render(a + qs) =~= "/.whiteout"@ + render(qs));
    assert(rel(a + qs) =~= ".whiteout"@ + render(qs));
}
