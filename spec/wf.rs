// ---- C03: wf is preserved by every PC mutator clause (pure spec-level lemmas; the code-level half is that each real
//      function's postcondition IS the corresponding predicate)
pub proof fn lemma_canonical_split(q: Seq<char>)
    requires canonical(q), q.len() > 0
    ensures q == child_path(parent_spec(q), filename_spec(q)), bare(filename_spec(q)), is_name(filename_spec(q)), canonical(parent_spec(q))
{
    let cs = choose|cs: Seq<Comp>| all_names(cs) && q == render(cs);
    lemma_render_len(cs);
    let a = render(cs.drop_last());
    let b = cs.last();
    assert(is_name(cs[cs.len() - 1]));
    assert(render(cs) == a + seq!['/'] + b);
    lemma_last_index_concat(a, b, '/');
    assert(q.subrange(0, a.len() as int) =~= a);
    assert(q.subrange(a.len() as int + 1, q.len() as int) =~= b);
    lemma_all_names_drop_last(cs);
    assert(child_path(a, b) =~= q);
}
pub proof fn lemma_child_path_parent(d: Seq<char>, n: Seq<char>)
    requires !n.contains('/')
    ensures parent_spec(child_path(d, n)) == d, filename_spec(child_path(d, n)) == n
{
    lemma_last_index_concat(d, n, '/');
    let q = child_path(d, n);
    assert(q.subrange(0, d.len() as int) =~= d);
    assert(q.subrange(d.len() as int + 1, q.len() as int) =~= n);
}
pub proof fn lemma_wf_insert_leaf(pre: Tree, p: Seq<char>, post: Tree)
    requires wf(pre), canonical(p), is_dir_at(pre, parent_spec(p)), !pre.contains_key(p) || !pre[p].is_dir,
             post.dom() =~= pre.dom().insert(p),
             forall|q: Seq<char>| q != p && pre.contains_key(q) ==> #[trigger] post[q] == pre[q],
    ensures wf(post)
{
    let e = Seq::<char>::empty();
    assert(p != e);
    assert(post[e] == pre[e]);
    assert forall|q: Seq<char>| #[trigger] post.contains_key(q) && q.len() > 0 implies canonical(q) && is_dir_at(post, parent_spec(q)) by {
        if q == p {
            assert(parent_spec(p) != p) by { if parent_spec(p) == p { assert(pre.contains_key(p) && pre[p].is_dir); } }
            assert(post[parent_spec(p)] == pre[parent_spec(p)]);
        } else {
            assert(pre.contains_key(q));
            if parent_spec(q) == p { assert(pre.contains_key(p) && pre[p].is_dir); }
            assert(post[parent_spec(q)] == pre[parent_spec(q)]);
        }
    }
}
pub proof fn lemma_wf_pc_create_dir(pre: Tree, p: Seq<char>, r: VfsResult<()>, post: Tree)
    requires wf(pre), canonical(p), pc_create_dir(pre, p, r, post)
    ensures wf(post)
{
    if r is Ok { lemma_wf_insert_leaf(pre, p, post); }
}
pub proof fn lemma_wf_create_file_ok(pre: Tree, p: Seq<char>, d: Seq<char>, b: Seq<u8>, pos: int, post: Tree)
    requires wf(pre), canonical(p), tc_create_file_ok(pre, p, d, b, pos, post), is_dir_at(pre, parent_spec(p))
    ensures wf(post)
{
    lemma_wf_insert_leaf(pre, p, post);
}
pub proof fn lemma_wf_remove_leaf(pre: Tree, p: Seq<char>, post: Tree)
    requires wf(pre), p.len() > 0, pre.contains_key(p), post =~= pre.remove(p), !pre[p].is_dir || no_children(pre, p)
    ensures wf(post)
{
    assert forall|q: Seq<char>| #[trigger] post.contains_key(q) && q.len() > 0 implies canonical(q) && is_dir_at(post, parent_spec(q)) by {
        assert(pre.contains_key(q));
        if parent_spec(q) == p {
            lemma_canonical_split(q);
            assert(is_child(pre, p, filename_spec(q)));
        }
    }
}
pub proof fn lemma_wf_remove_file(pre: Tree, p: Seq<char>, r: VfsResult<()>, post: Tree)
    requires wf(pre), tc_remove_file(pre, p, r, post)
    ensures wf(post)
{
    if r is Ok {
        if p.len() == 0 { assert(p =~= Seq::<char>::empty()); }
        lemma_wf_remove_leaf(pre, p, post);
    }
}
pub proof fn lemma_wf_remove_dir(pre: Tree, p: Seq<char>, r: VfsResult<()>, post: Tree)
    requires wf(pre), tc_remove_dir(pre, p, r, post), p.len() > 0
    ensures wf(post)
{
    if r is Ok { lemma_wf_remove_leaf(pre, p, post); }
}
pub proof fn lemma_wf_set_time(pre: Tree, p: Seq<char>, f: TimeField, t: SystemTime, r: VfsResult<()>, post: Tree)
    requires wf(pre), tc_set_time(pre, p, f, t, r, post)
    ensures wf(post)
{
    if r is Ok {
        assert forall|q: Seq<char>| #[trigger] post.contains_key(q) && q.len() > 0 implies canonical(q) && is_dir_at(post, parent_spec(q)) by {
            assert(pre.contains_key(q));
        }
    }
}
/// publishing a write handle keeps wf as long as the session was atomic: the destination is not a directory and its parent still is one
pub proof fn lemma_wf_publish(pre: Tree, dest: Seq<char>, buf: Seq<u8>, post: Tree)
    requires wf(pre), canonical(dest), tc_publish(pre, dest, buf, post), is_dir_at(pre, parent_spec(dest)), !pre.contains_key(dest) || !pre[dest].is_dir
    ensures wf(post)
{
    lemma_wf_insert_leaf(pre, dest, post);
}
