// ---- component boundaries of a path (create_dir_all, C11)
/// e is a component boundary of p: the prefixes p[..e] at cuts are exactly the non-root ancestors-or-self of a canonical p
pub open spec fn is_cut(p: Seq<char>, e: int) -> bool { 0 < e <= p.len() && (e == p.len() || p[e] == '/') }
pub open spec fn cut_prefix(p: Seq<char>, q: Seq<char>) -> bool { exists|e: int| is_cut(p, e) && q == #[trigger] p.subrange(0, e) }
/// create_dir_all frame: every pre-existing entry is untouched; whatever is new is a directory at a component prefix of p
pub open spec fn frame_ok(t0: Tree, t: Tree, p: Seq<char>) -> bool {
    &&& forall|q: Seq<char>| #![trigger t0.contains_key(q)] #![trigger t.contains_key(q)] t0.contains_key(q) ==> t.contains_key(q) && t[q] == t0[q]
    &&& forall|q: Seq<char>| #![trigger t.contains_key(q)] t.contains_key(q) && !t0.contains_key(q) ==> cut_prefix(p, q) && t[q].is_dir && t[q].bytes.len() == 0
}
pub proof fn lemma_frame_step(t0: Tree, t: Tree, t2: Tree, p: Seq<char>, e: int)
    requires frame_ok(t0, t, p), is_cut(p, e), !t.contains_key(p.subrange(0, e)),
             t2.dom() =~= t.dom().insert(p.subrange(0, e)), t2[p.subrange(0, e)].is_dir, t2[p.subrange(0, e)].bytes.len() == 0,
             forall|q: Seq<char>| q != p.subrange(0, e) && t.contains_key(q) ==> #[trigger] t2[q] == t[q],
    ensures frame_ok(t0, t2, p)
{
    let d = p.subrange(0, e);
    assert forall|q: Seq<char>| t0.contains_key(q) implies t2.contains_key(q) && t2[q] == t0[q] by {
        if q == d { assert(t.contains_key(q)); }
    }
    assert forall|q: Seq<char>| t2.contains_key(q) && !t0.contains_key(q) implies cut_prefix(p, q) && t2[q].is_dir && t2[q].bytes.len() == 0 by {
        if q == d { assert(is_cut(p, e) && q == p.subrange(0, e)); } else { assert(t.contains_key(q)); }
    }
}
pub proof fn lemma_cut_prefix_canonical_cs(cs: Seq<Comp>, e: int)
    requires all_names(cs), is_cut(render(cs), e)
    ensures canonical(render(cs).subrange(0, e))
    decreases cs.len()
{
    let p = render(cs);
    lemma_render_len(cs);
    if e == p.len() {
        assert(p.subrange(0, e) =~= p);
    } else {
        let dl = cs.drop_last();
        let a = render(dl);
        let b = cs.last();
        assert(is_name(cs[cs.len() - 1]));
        assert(p == a + seq!['/'] + b);
        lemma_all_names_drop_last(cs);
        if e == a.len() {
            assert(p.subrange(0, e) =~= a);
        } else if e < a.len() {
            assert(a[e] == p[e]);
            assert(is_cut(a, e));
            lemma_cut_prefix_canonical_cs(dl, e);
            assert(p.subrange(0, e) =~= a.subrange(0, e));
        } else {
            assert(p[e] == b[e - a.len() - 1]);
            assert(b.contains('/'));
        }
    }
}
pub proof fn lemma_cut_prefix_canonical(p: Seq<char>, e: int)
    requires canonical(p), is_cut(p, e)
    ensures canonical(p.subrange(0, e))
{
    let cs = choose|cs: Seq<Comp>| all_names(cs) && p == render(cs);
    lemma_cut_prefix_canonical_cs(cs, e);
}
pub proof fn lemma_canonical_shape(p: Seq<char>)
    requires canonical(p), p.len() > 0
    ensures p[0] == '/', p.last() != '/'
{
    let cs = choose|cs: Seq<Comp>| all_names(cs) && p == render(cs);
    lemma_render_len(cs);
    lemma_render_left(cs);
    let l = cs.last();
    assert(is_name(cs[cs.len() - 1]));
    assert(render(cs) == render(cs.drop_last()) + seq!['/'] + l);
    assert(p.last() == l.last());
    assert(l.contains(l.last())) by { assert(l[l.len() - 1] == l.last()); }
}
