//! Bounded stand-in / witness search: executes the REAL crate (vfs = { path = "/repo" }) on exhaustive small universes and
//! compares with executable forms of the contract clauses (the same abstract tree / cursor / path algebra the Verus units use).
//! This never counts as proof. It is used (a) to attach a concrete failing input to a VIOLATION reported by the verifier,
//! (b) as the labelled bounded fallback when a source change puts a function outside the verifier's reach.
//! Output: one line per check `PASS <check> cases=<n>` or `FAIL <check> <input that fails> :: <observed vs expected>`.
use std::collections::{BTreeMap, BTreeSet};
use std::io::{Read, Seek, SeekFrom, Write};
use std::panic::{catch_unwind, AssertUnwindSafe};
use vfs::error::VfsErrorKind;
use vfs::{AltrootFS, MemoryFS, OverlayFS, VfsFileType, VfsPath, VfsResult};

// ---- behaviour trace: an order-insensitive digest of what the real crate answered on the explored universe (results, error kinds and
//      error paths, listings, bytes; no timestamps, no messages). Printed as `TRACE <oracle> <hex>`; compared with the digest recorded on the
//      pinned tree to tell an edit that changes behaviour from one that does not (tool/extras.py).
static TRACE: std::sync::Mutex<u64> = std::sync::Mutex::new(0xcbf29ce484222325);
static TRACE_ON: std::sync::atomic::AtomicBool = std::sync::atomic::AtomicBool::new(true);
fn tr(s: &str) { if !TRACE_ON.load(std::sync::atomic::Ordering::SeqCst) { return; } let mut h = TRACE.lock().unwrap_or_else(|e| e.into_inner()); for b in s.as_bytes() { *h ^= *b as u64; *h = h.wrapping_mul(0x100000001b3); } *h ^= 0xff; *h = h.wrapping_mul(0x100000001b3); }
fn tr_res<T>(what: &str, r: &VfsResult<T>) { match r { Ok(_) => tr(&format!("{} Ok", what)), Err(e) => tr(&format!("{} Err {} {:?}", what, kind_name(e), e.path())) } }
fn kind_name(e: &vfs::VfsError) -> &'static str { match e.kind() { VfsErrorKind::IoError(_) => "Io", VfsErrorKind::FileNotFound => "NotFound", VfsErrorKind::InvalidPath => "InvalidPath", VfsErrorKind::Other(_) => "Other",
    VfsErrorKind::DirectoryExists => "DirExists", VfsErrorKind::FileExists => "FileExists", VfsErrorKind::NotSupported => "NotSupported", #[allow(unreachable_patterns)] _ => "Async" } }
struct Report { check: String, cases: u64, fail: Option<String> }
impl Report {
    fn new(check: &str) -> Self { Report { check: check.to_string(), cases: 0, fail: None } }
    fn case(&mut self) { self.cases += 1; }
    fn fail(&mut self, input: String, what: String) { if self.fail.is_none() { self.fail = Some(format!("{} :: {}", input, what)); } }
    fn done(self) -> bool {
        match self.fail {
            None => { println!("PASS {} cases={}", self.check, self.cases); println!("TRACE {} {:016x}", self.check, *TRACE.lock().unwrap_or_else(|e| e.into_inner())); true }
            Some(f) => { println!("FAIL {} {}", self.check, f); false }
        }
    }
}

// ------------------------------------------------------------------------------------------------ path algebra (C06)
fn join_spec(base: &[String], arg: &str) -> Option<Vec<String>> {
    if arg.is_empty() { return Some(base.to_vec()); }
    if arg.chars().count() > 1 && arg.ends_with('/') { return None; }
    let mut stack: Vec<String> = if arg.starts_with('/') { vec![] } else { base.to_vec() };
    for c in arg.split('/') {
        if c == "." || c.is_empty() { continue; }
        if c == ".." { stack.pop(); } else { stack.push(c.to_string()); }
    }
    Some(stack)
}
fn render(cs: &[String]) -> String { cs.iter().map(|c| format!("/{}", c)).collect() }
fn strings(alpha: &[char], max: usize) -> Vec<String> {
    let mut out = vec![String::new()];
    let mut cur = vec![String::new()];
    for _ in 0..max {
        let mut next = vec![];
        for s in &cur { for c in alpha { let mut t = s.clone(); t.push(*c); next.push(t); } }
        out.extend(next.iter().cloned());
        cur = next;
    }
    out
}
fn oracle_paths(max: usize) -> bool {
    let mut r = Report::new("paths");
    let root: VfsPath = MemoryFS::new().into();
    let bases: Vec<Vec<String>> = vec![vec![], vec!["a".into()], vec!["a".into(), "b".into()], vec!["é".into()], vec!["a.b".into(), "c.d".into()]];
    let args = strings(&['/', '.', 'a', 'é', ' '], max);
    for base in &bases {
        let mut p = root.clone();
        for c in base { p = p.join(c).unwrap(); }
        if p.as_str() != render(base) { r.fail(format!("base {:?}", base), format!("as_str {:?}", p.as_str())); }
        for arg in &args {
            r.case();
            let got = catch_unwind(AssertUnwindSafe(|| p.join(arg)));
            if let Ok(g) = &got { tr_res(&format!("join {} {}", render(base), arg), g); if let Ok(q) = g { tr(q.as_str());
                // the derived values are traced under catch_unwind: a panic here is found (and reported) by the checks below
                let d = catch_unwind(AssertUnwindSafe(|| format!("{} {} {:?} {}", q.parent().as_str(), q.filename(), q.extension(), q.is_root()))); tr(&d.unwrap_or_else(|_| "panic".to_string())); } }
            let want = join_spec(base, arg);
            match (got, want) {
                (Err(_), _) => r.fail(format!("join base={:?} arg={:?}", render(base), arg), "panicked".into()),
                (Ok(Err(e)), None) => { if !matches!(e.kind(), VfsErrorKind::InvalidPath) { r.fail(format!("join base={:?} arg={:?}", render(base), arg), format!("error kind {:?}, expected InvalidPath", e.kind())); } }
                (Ok(Ok(q)), None) => r.fail(format!("join base={:?} arg={:?}", render(base), arg), format!("Ok({:?}), expected InvalidPath", q.as_str())),
                (Ok(Err(e)), Some(w)) => r.fail(format!("join base={:?} arg={:?}", render(base), arg), format!("Err({}), expected {:?}", e, render(&w))),
                (Ok(Ok(q)), Some(w)) => {
                    if q.as_str() != render(&w) { r.fail(format!("join base={:?} arg={:?}", render(base), arg), format!("{:?}, expected {:?}", q.as_str(), render(&w))); }
                    // parent / filename / extension / root consistency on the result
                    let par = catch_unwind(AssertUnwindSafe(|| q.parent()));
                    let mut wp = w.clone(); wp.pop();
                    match par { Err(_) => r.fail(format!("parent of {:?}", q.as_str()), "panicked".into()),
                                Ok(pp) => if pp.as_str() != render(&wp) { r.fail(format!("parent of {:?}", q.as_str()), format!("{:?}, expected {:?}", pp.as_str(), render(&wp))) } }
                    let fname = w.last().cloned().unwrap_or_default();
                    match catch_unwind(AssertUnwindSafe(|| q.filename())) { Err(_) => r.fail(format!("filename of {:?}", q.as_str()), "panicked".into()),
                        Ok(f) => if f != fname { r.fail(format!("filename of {:?}", q.as_str()), format!("{:?}, expected {:?}", f, fname)) } }
                    let wext = match fname.rfind('.') { Some(i) if i > 0 => Some(fname[i + 1..].to_string()), _ => None };
                    match catch_unwind(AssertUnwindSafe(|| q.extension())) { Err(_) => r.fail(format!("extension of {:?}", q.as_str()), "panicked".into()),
                        Ok(e) => if e != wext { r.fail(format!("extension of {:?}", q.as_str()), format!("{:?}, expected {:?}", e, wext)) } }
                    if q.is_root() != w.is_empty() { r.fail(format!("is_root of {:?}", q.as_str()), format!("{}", q.is_root())); }
                    if q.root().as_str() != "" { r.fail(format!("root of {:?}", q.as_str()), q.root().as_str().to_string()); }
                }
            }
        }
    }
    // equality: same filesystem instance and same path string, nothing else (reflexive, symmetric; roots of different instances differ)
    let other: VfsPath = MemoryFS::new().into();
    for arg in ["", "a", "a/b", "é", "a/../a", ".."] {
        r.case();
        let (x, y, z) = (root.join(arg).unwrap(), root.join(arg).unwrap(), other.join(arg).unwrap());
        let what = format!("equality of paths joined with {:?}", arg);
        if x != y || y != x || x != x.clone() { r.fail(what.clone(), "equal paths of one filesystem compare unequal".into()); }
        if x == z || z == x { r.fail(what.clone(), "paths of two different filesystem instances compare equal".into()); }
        if x.root() == z.root() || x.root() != root || z.root() != other || x.root() != y.root() { r.fail(what.clone(), "root() of a joined path is not the root of its own filesystem".into()); }
        if x.parent() == z.parent() || x.parent() != y.parent() { r.fail(what.clone(), "parent() equality crosses filesystem instances".into()); }
        if (x == root) != x.as_str().is_empty() { r.fail(what.clone(), "comparison with the root disagrees with the path string".into()); }
    }
    r.done()
}

// ------------------------------------------------------------------------------------------------ cursor model (C14, C04)
#[derive(Clone, Debug)]
enum ROp { Read(usize), Seek(SeekFrom) }
fn oracle_reader(depth: usize) -> bool {
    let mut r = Report::new("reader");
    let ops: Vec<ROp> = vec![ROp::Read(0), ROp::Read(1), ROp::Read(2), ROp::Read(5),
        ROp::Seek(SeekFrom::Start(0)), ROp::Seek(SeekFrom::Start(1)), ROp::Seek(SeekFrom::Start(5)), ROp::Seek(SeekFrom::Start(u64::MAX)),
        ROp::Seek(SeekFrom::Current(-1)), ROp::Seek(SeekFrom::Current(0)), ROp::Seek(SeekFrom::Current(2)), ROp::Seek(SeekFrom::Current(i64::MIN)), ROp::Seek(SeekFrom::Current(i64::MAX)),
        ROp::Seek(SeekFrom::End(-1)), ROp::Seek(SeekFrom::End(0)), ROp::Seek(SeekFrom::End(1)), ROp::Seek(SeekFrom::End(-5))];
    for content in [&b""[..], &b"a"[..], &b"abc"[..]] {
        let mut scripts: Vec<Vec<ROp>> = vec![vec![]];
        for _ in 0..depth { let mut n = vec![]; for s in &scripts { for o in &ops { let mut t = s.clone(); t.push(o.clone()); n.push(t); } } scripts = n; }
        for script in scripts {
            r.case();
            let root: VfsPath = MemoryFS::new().into();
            let f = root.join("f").unwrap();
            f.create_file().unwrap().write_all(content).unwrap();
            let res = catch_unwind(AssertUnwindSafe(|| {
                let mut h = f.open_file().unwrap();
                let mut pos: i128 = 0;
                for (i, op) in script.iter().enumerate() {
                    match op {
                        ROp::Read(n) => { tr(&format!("read {}", n));
                            let mut buf = vec![0xEEu8; *n];
                            let got = h.read(&mut buf);
                            tr(&format!("{:?} {:?}", got.as_ref().map_err(|e| e.kind()), buf));
                            let avail = if pos >= content.len() as i128 { 0 } else { content.len() as i128 - pos } as usize;
                            let k = (*n).min(avail);
                            match got { Ok(g) if g == k && buf[..k] == content[pos.min(content.len() as i128) as usize..][..k] && buf[k..].iter().all(|b| *b == 0xEE) => { pos += k as i128; }
                                        other => return Some(format!("step {} {:?}: got {:?} buf {:?}, expected {} bytes", i, op, other.map_err(|e| e.to_string()), buf, k)) }
                        }
                        ROp::Seek(s) => { tr(&format!("seek {:?}", s));
                            let target: i128 = match s { SeekFrom::Start(o) => *o as i128, SeekFrom::Current(d) => pos + *d as i128, SeekFrom::End(d) => content.len() as i128 + *d as i128 };
                            let want = if target >= 0 && target <= u64::MAX as i128 { Some(target) } else { None };
                            let got = h.seek(*s);
                            tr(&format!("{:?}", got.as_ref().map_err(|e| e.kind())));
                            match (got, want) { (Ok(g), Some(w)) if g as i128 == w => { pos = w; }
                                                (Err(_), None) => {}
                                                (g, w) => return Some(format!("step {} {:?}: got {:?}, expected {:?}", i, op, g.map_err(|e| e.to_string()), w)) }
                        }
                    }
                }
                // where the cursor stands after the script (a read that delivers nothing must not move it)
                let end = h.seek(SeekFrom::Current(0));
                tr(&format!("end {:?}", end.as_ref().map_err(|e| e.kind())));
                match end { Ok(g) if g as i128 == pos => {} other => return Some(format!("after the script the cursor stands at {:?}, expected {}", other.map_err(|e| e.to_string()), pos)) }
                None
            }));
            match res { Err(_) => r.fail(format!("content={:?} script={:?}", content, script), "panicked".into()),
                        Ok(Some(m)) => r.fail(format!("content={:?} script={:?}", content, script), m), Ok(None) => {} }
        }
    }
    r.done()
}
#[derive(Clone, Debug)]
enum WOp { Write(&'static [u8]), Seek(SeekFrom), Flush }
fn oracle_writer(depth: usize) -> bool {
    let mut r = Report::new("writer");
    let ops: Vec<WOp> = vec![WOp::Write(b""), WOp::Write(b"x"), WOp::Write(b"yz"), WOp::Seek(SeekFrom::Start(0)), WOp::Seek(SeekFrom::Start(4)), WOp::Seek(SeekFrom::Current(-1)), WOp::Seek(SeekFrom::End(-1)), WOp::Seek(SeekFrom::End(0)), WOp::Flush];
    for (append, initial) in [(false, &b""[..]), (false, &b"old"[..]), (true, &b"ab"[..])] {
        let mut scripts: Vec<Vec<WOp>> = vec![vec![]];
        for _ in 0..depth { let mut n = vec![]; for s in &scripts { for o in &ops { let mut t = s.clone(); t.push(o.clone()); n.push(t); } } scripts = n; }
        for script in scripts {
            r.case();
            let root: VfsPath = MemoryFS::new().into();
            let f = root.join("f").unwrap();
            if !initial.is_empty() { f.create_file().unwrap().write_all(initial).unwrap(); }
            let mut model: Vec<u8> = if append { initial.to_vec() } else { vec![] };
            let mut pos: usize = if append { model.len() } else { 0 };
            let res = catch_unwind(AssertUnwindSafe(|| {
                let mut h = if append { f.append_file().unwrap() } else { f.create_file().unwrap() };
                for (i, op) in script.iter().enumerate() {
                    match op {
                        WOp::Write(d) => {
                            h.write_all(d).unwrap();
                            if !d.is_empty() { if pos > model.len() { model.resize(pos, 0); } let end = pos + d.len(); if end > model.len() { model.resize(end, 0); } model[pos..end].copy_from_slice(d); pos = end; }
                        }
                        WOp::Seek(s) => {
                            let target: i128 = match s { SeekFrom::Start(o) => *o as i128, SeekFrom::Current(d) => pos as i128 + *d as i128, SeekFrom::End(d) => model.len() as i128 + *d as i128 };
                            let got = h.seek(*s);
                            tr(&format!("wseek {:?} {:?}", s, got.as_ref().map_err(|e| e.kind())));
                            if target < 0 { if got.is_ok() { return Some(format!("step {} {:?}: seek before start succeeded", i, op)); } }
                            else { match got { Ok(g) if g as i128 == target => pos = target as usize, g => return Some(format!("step {} {:?}: got {:?}", i, op, g.map_err(|e| e.to_string()))) } }
                        }
                        WOp::Flush => {
                            h.flush().unwrap();
                            let mut b = vec![]; f.open_file().unwrap().read_to_end(&mut b).unwrap();
                            tr(&format!("flush {:?}", b));
                            if b != model { return Some(format!("step {} flush: file holds {:?}, expected {:?}", i, b, model)); }
                        }
                    }
                }
                drop(h);
                let mut b = vec![]; f.open_file().unwrap().read_to_end(&mut b).unwrap();
                tr(&format!("drop {:?} {}", b, f.metadata().map(|m| m.len).unwrap_or(u64::MAX)));
                if b != model { return Some(format!("after drop: file holds {:?}, expected {:?}", b, model)); }
                let len = f.metadata().unwrap().len;
                if len != model.len() as u64 { return Some(format!("metadata.len {} expected {}", len, model.len())); }
                None
            }));
            match res { Err(_) => r.fail(format!("append={} initial={:?} script={:?}", append, initial, script), "panicked".into()),
                        Ok(Some(m)) => r.fail(format!("append={} initial={:?} script={:?}", append, initial, script), m), Ok(None) => {} }
        }
    }
    r.done()
}

// ------------------------------------------------------------------------------------------------ abstract tree model (C01, C03, C05, C12, C19)
#[derive(Clone, PartialEq, Debug)]
enum Node { Dir, File(Vec<u8>) }
type Model = BTreeMap<String, Node>;
#[derive(Clone, Copy, PartialEq, Debug)]
enum EC { NotFound, FileExists, DirExists, Other }
fn parent(p: &str) -> String { match p.rfind('/') { Some(i) => p[..i].to_string(), None => String::new() } }
fn children(m: &Model, d: &str) -> Vec<String> { let pre = format!("{}/", d); let mut v: Vec<String> = m.keys().filter(|k| k.starts_with(&pre) && !k[pre.len()..].contains('/')).map(|k| k[pre.len()..].to_string()).collect(); v.sort(); v }
#[derive(Clone, Copy, Debug, PartialEq)]
enum Op { CreateDir, CreateFile, Append, RemoveFile, RemoveDir, CreateDirAll, RemoveDirAll, MoveTo, CopyTo }
/// fixed destination of the MoveTo / CopyTo steps (a top-level name of the universe)
const XFER_DEST: &str = "/mv";
fn model_apply(m: &mut Model, op: Op, p: &str) -> Result<(), EC> {
    let par_ok = matches!(m.get(&parent(p)), Some(Node::Dir));
    match op {
        Op::CreateDir => { if !par_ok { return Err(EC::Other); } match m.get(p) { Some(Node::File(_)) => Err(EC::FileExists), Some(Node::Dir) => Err(EC::DirExists), None => { m.insert(p.into(), Node::Dir); Ok(()) } } }
        // re-creation writes FEWER bytes than the first creation, so a missing truncation shows
        Op::CreateFile => { if !par_ok { return Err(EC::Other); } match m.get(p) { Some(Node::Dir) => Err(EC::Other), Some(Node::File(_)) => { m.insert(p.into(), Node::File(b"n".to_vec())); Ok(()) } None => { m.insert(p.into(), Node::File(b"new".to_vec())); Ok(()) } } }
        // "a target that is missing from an existing directory is reported as not-found"; below a missing / non-directory parent any error class is fine
        Op::Append => match m.get_mut(p) { Some(Node::File(b)) => { b.extend_from_slice(b"+"); Ok(()) } Some(Node::Dir) => Err(EC::Other), None => Err(if par_ok { EC::NotFound } else { EC::Other }) },
        Op::RemoveFile => match m.get(p) { Some(Node::File(_)) => { m.remove(p); Ok(()) } Some(Node::Dir) => Err(EC::Other), None => Err(if par_ok { EC::NotFound } else { EC::Other }) },
        Op::RemoveDir => match m.get(p) { Some(Node::Dir) => { if children(m, p).is_empty() { m.remove(p); Ok(()) } else { Err(EC::Other) } } Some(Node::File(_)) => Err(EC::Other), None => Err(if par_ok { EC::NotFound } else { EC::Other }) },
        Op::CreateDirAll => {
            let mut cur = String::new();
            for c in p.split('/').filter(|c| !c.is_empty()) {
                cur = format!("{}/{}", cur, c);
                match m.get(&cur) { Some(Node::Dir) => {} Some(Node::File(_)) => return Err(EC::FileExists), None => { if !matches!(m.get(&parent(&cur)), Some(Node::Dir)) { return Err(EC::Other); } m.insert(cur.clone(), Node::Dir); } }
            }
            Ok(())
        }
        // move_file / copy_file to the fixed destination: source must be a file, destination must not exist (C11); same filesystem, so a
        // backend's own move_file / copy_file override is what runs
        Op::MoveTo | Op::CopyTo => {
            if m.contains_key(XFER_DEST) { return Err(EC::Other); }
            match m.get(p).cloned() { Some(Node::File(b)) => { if op == Op::MoveTo { m.remove(p); } m.insert(XFER_DEST.into(), Node::File(b)); Ok(()) } _ => Err(EC::Other) }
        }
        Op::RemoveDirAll => {
            match m.get(p) { None => Ok(()), Some(Node::File(_)) => Err(EC::Other),
                Some(Node::Dir) => { let pre = format!("{}/", p); let ks: Vec<String> = m.keys().filter(|k| *k == p || k.starts_with(&pre)).cloned().collect(); for k in ks { m.remove(&k); } Ok(()) } }
        }
    }
}
fn real_apply(root: &VfsPath, op: Op, p: &str) -> VfsResult<()> { let r = real_apply0(root, op, p); tr_res(&format!("{:?} {}", op, p), &r); r }
fn real_apply0(root: &VfsPath, op: Op, p: &str) -> VfsResult<()> {
    let q = root.join(&p[1..])?;
    match op {
        Op::CreateDir => q.create_dir(),
        Op::CreateFile => { let existed = q.exists().unwrap_or(false); let mut h = q.create_file()?; h.write_all(if existed { b"n" } else { b"new" }).unwrap(); Ok(()) }
        Op::Append => { let mut h = q.append_file()?; h.write_all(b"+").unwrap(); Ok(()) }
        Op::RemoveFile => q.remove_file(),
        Op::RemoveDir => q.remove_dir(),
        Op::CreateDirAll => q.create_dir_all(),
        Op::RemoveDirAll => q.remove_dir_all(),
        Op::MoveTo => q.move_file(&root.join(&XFER_DEST[1..])?),
        Op::CopyTo => q.copy_file(&root.join(&XFER_DEST[1..])?),
    }
}
fn class_of(e: &vfs::VfsError) -> EC { match e.kind() { VfsErrorKind::FileNotFound => EC::NotFound, VfsErrorKind::FileExists => EC::FileExists, VfsErrorKind::DirectoryExists => EC::DirExists, _ => EC::Other } }
/// compare every observation of the real tree with the model; None = agree
fn compare(root: &VfsPath, m: &Model, universe: &[&str]) -> Option<String> {
    for p in universe {
        let q = if p.is_empty() { root.clone() } else { root.join(&p[1..]).unwrap() };
        let want = m.get(*p);
        let ex = q.exists();
        tr_res(&format!("exists {}", p), &ex); if let Ok(b) = &ex { tr(if *b { "t" } else { "f" }); }
        { let md = q.metadata(); tr_res(&format!("metadata {}", p), &md); if let Ok(m) = &md { tr(&format!("{:?} {}", m.file_type, m.len)); } }
        { let l = q.read_dir().map(|it| { let mut v: Vec<String> = it.map(|c| c.as_str().to_string()).collect(); v.sort(); v }); tr_res(&format!("read_dir {}", p), &l); if let Ok(v) = &l { tr(&v.join("|")); } }
        { let t = q.read_to_string(); tr_res(&format!("read {}", p), &t); if let Ok(x) = &t { tr(x); } }
        if !matches!(ex, Ok(b) if b == want.is_some()) { return Some(format!("exists({:?}) = {:?}, model {:?}", p, ex.map_err(|e| e.to_string()), want.is_some())); }
        match (q.metadata(), want) {
            (Ok(md), Some(Node::Dir)) => { if md.file_type != VfsFileType::Directory || md.len != 0 { return Some(format!("metadata({:?}) = {:?}/{} for a directory", p, md.file_type, md.len)); } }
            (Ok(md), Some(Node::File(b))) => { if md.file_type != VfsFileType::File || md.len != b.len() as u64 { return Some(format!("metadata({:?}) = {:?}/{}, model file of {} bytes", p, md.file_type, md.len, b.len())); } }
            (Err(e), None) => { if class_of(&e) != EC::NotFound && matches!(m.get(&parent(p)), Some(Node::Dir)) { return Some(format!("metadata({:?}) on a missing entry is {:?}, expected FileNotFound", p, e.kind())); }
                                 if e.path().as_str() != *p && !universe_alias(e.path(), p) { return Some(format!("metadata({:?}) error names path {:?}", p, e.path())); } }
            (got, w) => return Some(format!("metadata({:?}) = {:?}, model {:?}", p, got.map(|x| x.file_type).map_err(|e| e.to_string()), w)),
        }
        if !matches!(q.is_dir(), Ok(b) if b == matches!(want, Some(Node::Dir))) { return Some(format!("is_dir({:?}) disagrees with model {:?}", p, want)); }
        if !matches!(q.is_file(), Ok(b) if b == matches!(want, Some(Node::File(_)))) { return Some(format!("is_file({:?}) disagrees with model {:?}", p, want)); }
        match (q.read_dir(), want) {
            (Ok(it), Some(Node::Dir)) => { let mut names: Vec<String> = it.map(|c| { let s = c.as_str().to_string(); s[p.len() + 1..].to_string() }).collect(); names.sort();
                                            if names != children(m, p) { return Some(format!("read_dir({:?}) = {:?}, model {:?}", p, names, children(m, p))); } }
            (Err(_), Some(Node::Dir)) => return Some(format!("read_dir({:?}) failed on a directory", p)),
            (Ok(_), _) => return Some(format!("read_dir({:?}) succeeded, model {:?}", p, want)),
            (Err(_), _) => {}
        }
        match (q.open_file(), want) {
            (Ok(mut h), Some(Node::File(b))) => { let mut got = vec![]; h.read_to_end(&mut got).unwrap(); if &got != b { return Some(format!("read({:?}) = {:?}, model {:?}", p, got, b)); } }
            (Err(_), Some(Node::File(_))) => return Some(format!("open_file({:?}) failed on a file", p)),
            // "a file iff it can be read": the OS lets a directory be opened, but then reading must fail
            (Ok(mut h), _) => { let mut got = vec![]; if h.read_to_end(&mut got).is_ok() { return Some(format!("open_file({:?}) could be read ({} bytes), model {:?}", p, got.len(), want)); } }
            (Err(_), _) => {}
        }
    }
    // C05: walk_dir from the root yields every entry of the model exactly once and a directory before anything inside it
    match root.walk_dir() {
        Err(e) => return Some(format!("walk_dir(root) failed: {}", e)),
        Ok(w) => {
            let mut seen: Vec<String> = vec![];
            for e in w { match e { Ok(p) => seen.push(p.as_str().to_string()), Err(e) => return Some(format!("walk_dir(root) yields an error: {}", e)) } }
            for (i, p) in seen.iter().enumerate() { let par = parent(p); if !par.is_empty() && !seen[..i].contains(&par) { return Some(format!("walk_dir yields {:?} before its directory", p)); } }
            let mut sorted = seen.clone(); sorted.sort();
            let mut want: Vec<String> = m.keys().filter(|k| !k.is_empty()).cloned().collect(); want.sort();
            tr(&sorted.join("|"));
            if sorted != want { return Some(format!("walk_dir(root) yields {:?}, model {:?}", sorted, want)); }
        }
    }
    // C03: well-formedness of the model is an invariant of model_apply; the comparison above transfers it to the real tree
    None
}
fn universe_alias(_got: &str, _p: &str) -> bool { false }
const UNIVERSE: [&str; 14] = ["", "/a", "/ab", "/ab/x", "/a.b", "/a/b", "/a/b/c", "/a/a", "/é", "/é/x", "/..h", "/a\\z", "/mv", "/r"];
fn make_backend(kind: &str) -> (VfsPath, Box<dyn Fn() -> Option<String>>) {
    match kind {
        "memory" => (MemoryFS::new().into(), Box::new(|| None)),
        "altroot" => {
            let inner: VfsPath = MemoryFS::new().into();
            inner.join("r").unwrap().create_dir().unwrap();
            inner.join("outside").unwrap().create_file().unwrap().write_all(b"keep").unwrap();
            let alt: VfsPath = AltrootFS::new(inner.join("r").unwrap()).into();
            let inner2 = inner.clone();
            // C07 confinement: nothing outside /r changes
            (alt, Box::new(move || {
                let names: Vec<String> = { let mut v: Vec<String> = inner2.read_dir().unwrap().map(|p| p.as_str().to_string()).collect(); v.sort(); v };
                if names != vec!["/outside".to_string(), "/r".to_string()] { return Some(format!("underlying root lists {:?}", names)); }
                if inner2.join("outside").unwrap().read_to_string().unwrap() != "keep" { return Some("file outside the altroot changed".into()); }
                None
            }))
        }
        "overlay" => {
            let upper: VfsPath = MemoryFS::new().into();
            let lower: VfsPath = MemoryFS::new().into();
            let l2 = lower.clone();
            (OverlayFS::new(&[upper, lower]).into(), Box::new(move || { if l2.read_dir().unwrap().count() != 0 { Some("lower layer is no longer empty".into()) } else { None } }))
        }
        // ---- stacked adapters (C01 / C07 / C09 "any stacking"): every layer below is empty, so the plain tree semantics must hold
        "altroot.altroot" => {
            let inner: VfsPath = MemoryFS::new().into();
            inner.join("r").unwrap().create_dir().unwrap(); inner.join("r/s").unwrap().create_dir().unwrap();
            let a1: VfsPath = AltrootFS::new(inner.join("r").unwrap()).into();
            (AltrootFS::new(a1.join("s").unwrap()).into(), Box::new(|| None))
        }
        "altroot.overlay" => {
            let (u, l): (VfsPath, VfsPath) = (MemoryFS::new().into(), MemoryFS::new().into());
            let ov: VfsPath = OverlayFS::new(&[u, l]).into();
            ov.join("r").unwrap().create_dir().unwrap();
            (AltrootFS::new(ov.join("r").unwrap()).into(), Box::new(|| None))
        }
        "overlay.altroot" => {
            let (m1, m2): (VfsPath, VfsPath) = (MemoryFS::new().into(), MemoryFS::new().into());
            m1.join("u").unwrap().create_dir().unwrap(); m2.join("l").unwrap().create_dir().unwrap();
            let (u, l): (VfsPath, VfsPath) = (AltrootFS::new(m1.join("u").unwrap()).into(), AltrootFS::new(m2.join("l").unwrap()).into());
            let l2 = l.clone();
            (OverlayFS::new(&[u, l]).into(), Box::new(move || { if l2.read_dir().unwrap().count() != 0 { Some("lower layer is no longer empty".into()) } else { None } }))
        }
        "overlay.nested" => {
            let (a, b, c): (VfsPath, VfsPath, VfsPath) = (MemoryFS::new().into(), MemoryFS::new().into(), MemoryFS::new().into());
            let inner: VfsPath = OverlayFS::new(&[a, b]).into();
            let c2 = c.clone();
            (OverlayFS::new(&[inner, c]).into(), Box::new(move || { if c2.read_dir().unwrap().count() != 0 { Some("lowest layer is no longer empty".into()) } else { None } }))
        }
        "overlay4" => {
            let ls: Vec<VfsPath> = (0..4).map(|_| MemoryFS::new().into()).collect();
            let lows: Vec<VfsPath> = ls[1..].to_vec();
            (OverlayFS::new(&ls).into(), Box::new(move || { if lows.iter().any(|l| l.read_dir().unwrap().count() != 0) { Some("a lower layer is no longer empty".into()) } else { None } }))
        }
        "physical" => {
            use std::sync::atomic::{AtomicU64, Ordering};
            static N: AtomicU64 = AtomicU64::new(0);
            let dir = std::env::temp_dir().join(format!("vfs-oracle-{}-{}", std::process::id(), N.fetch_add(1, Ordering::SeqCst)));
            let _ = std::fs::remove_dir_all(&dir);
            std::fs::create_dir_all(dir.join("root")).unwrap();
            std::fs::write(dir.join("outside"), b"keep").unwrap();
            let d2 = dir.clone();
            // confinement: nothing next to the root directory changes; the scratch directory is removed when the closure is dropped
            struct Cleanup(std::path::PathBuf);
            impl Drop for Cleanup { fn drop(&mut self) { let _ = std::fs::remove_dir_all(&self.0); } }
            let guard = Cleanup(dir.clone());
            (vfs::PhysicalFS::new(dir.join("root")).into(), Box::new(move || {
                let _keep = &guard;
                let mut names: Vec<String> = std::fs::read_dir(&d2).unwrap().map(|e| e.unwrap().file_name().to_string_lossy().into_owned()).collect(); names.sort();
                if names != vec!["outside".to_string(), "root".to_string()] { return Some(format!("directory next to the PhysicalFS root lists {:?}", names)); }
                if std::fs::read(d2.join("outside")).unwrap() != b"keep" { return Some("file outside the PhysicalFS root changed".into()); }
                None
            }))
        }
        _ => panic!("unknown backend"),
    }
}
fn oracle_tree(kind: &str, depth: usize, with_composites: bool) -> bool {
    let mut r = Report::new(&format!("tree.{}", kind));
    let mut ops = vec![Op::CreateDir, Op::CreateFile, Op::Append, Op::RemoveFile, Op::RemoveDir, Op::MoveTo, Op::CopyTo];
    if with_composites { ops.push(Op::CreateDirAll); ops.push(Op::RemoveDirAll); }
    let steps: Vec<(Op, &str)> = ops.iter().flat_map(|o| UNIVERSE[1..].iter().map(move |p| (*o, *p))).collect();
    let mut seqs: Vec<Vec<(Op, &str)>> = vec![vec![]];
    for _ in 0..depth { let mut n = vec![]; for s in &seqs { for st in &steps { let mut t = s.clone(); t.push(*st); n.push(t); } } seqs = n; }
    // every sequence is run from the empty tree and from a populated one (nested directories with a file, a multi-byte directory, a prefix sibling)
    for (populated, seq) in [false, true].iter().flat_map(|b| seqs.iter().map(move |s| (*b, s.clone()))) {
        r.case();
        let (root, extra) = make_backend(kind);
        let mut m: Model = BTreeMap::new();
        m.insert(String::new(), Node::Dir);
        if populated {
            for (p, c) in [("/a", None), ("/a/b", None), ("/a/b/c", Some(&b"c"[..])), ("/é", None), ("/ab", None), ("/ab/x", Some(&b"x"[..]))] {
                let q = root.join(&p[1..]).unwrap();
                match c { None => { q.create_dir().unwrap(); m.insert(p.into(), Node::Dir); } Some(b) => { q.create_file().unwrap().write_all(b).unwrap(); m.insert(p.into(), Node::File(b.to_vec())); } }
            }
        }
        let res = catch_unwind(AssertUnwindSafe(|| {
            for (i, (op, p)) in seq.iter().enumerate() {
                let want = model_apply(&mut m, *op, p);
                let got = real_apply(&root, *op, p);
                match (&got, &want) {
                    (Ok(()), Ok(())) => {}
                    (Err(e), Err(w)) => {
                        let c = class_of(e);
                        if (*w == EC::NotFound || *w == EC::FileExists || *w == EC::DirExists) && c != *w { return Some(format!("step {} {:?}({:?}): error class {:?}, expected {:?}", i, op, p, e.kind(), w)); }
                        if matches!(op, Op::CreateDir) && (c == EC::FileExists || c == EC::DirExists) && c != *w { return Some(format!("step {} {:?}({:?}): error class {:?}, model {:?}", i, op, p, e.kind(), w)); }
                        let ep = e.path().as_str();
                        if !(ep == *p || p.starts_with(&format!("{}/", ep)) || ep.starts_with(&format!("{}/", p)) || (ep.is_empty() && !matches!(op, Op::CreateDir | Op::CreateFile))) {
                            return Some(format!("step {} {:?}({:?}): error names path {:?}", i, op, p, ep));
                        }
                    }
                    // a transfer whose source has the wrong type is left unspecified by C01; C03/C05 still bind the resulting state:
                    // a directory that move_file accepts must have moved with its whole subtree (PhysicalFS renames it), anything else
                    // shows up below as an orphan or an inconsistent observation. A directory accepted by copy_file ends the sequence.
                    (Ok(()), Err(_)) if *op == Op::MoveTo && matches!(m.get(*p), Some(Node::Dir)) && !m.contains_key(XFER_DEST) && *p != XFER_DEST => {
                        let pre = format!("{}/", p);
                        let ks: Vec<String> = m.keys().filter(|k| *k == p || k.starts_with(&pre)).cloned().collect();
                        for k in ks { let n = m.remove(&k).unwrap(); m.insert(format!("{}{}", XFER_DEST, &k[p.len()..]), n); }
                    }
                    (Ok(()), Err(_)) if *op == Op::CopyTo && matches!(m.get(*p), Some(Node::Dir)) => return None,
                    (g, w) => return Some(format!("step {} {:?}({:?}): got {:?}, model {:?}", i, op, p, g.as_ref().map_err(|e| e.to_string()), w)),
                }
                if let Some(d) = compare(&root, &m, &UNIVERSE) { return Some(format!("after step {} {:?}({:?}): {}", i, op, p, d)); }
                if let Some(d) = extra() { return Some(format!("after step {} {:?}({:?}): {}", i, op, p, d)); }
            }
            None
        }));
        match res { Err(_) => r.fail(format!("populated={} {:?}", populated, seq), "panicked".into()), Ok(Some(d)) => r.fail(format!("populated={} {:?}", populated, seq), d), Ok(None) => {} }
    }
    r.done()
}

// ------------------------------------------------------------------------------------------------ trait fast path called directly (C07, C11)
/// AltrootFS::copy_file called on the filesystem object (the path type's own destination check masks part of these inputs): the executable form of
/// the clauses altroot.copy_file.{root_refused, refuses_existing, ok, view_frame, confined}
fn oracle_direct_altroot() -> bool {
    use vfs::FileSystem;
    let mut r = Report::new("direct.altroot");
    let names = ["", "/a", "/b", "/d", "/d/x", "/d/y", "/nope/z", "/\u{e9}"];
    for s in names { for d in names {
        r.case();
        let res = catch_unwind(AssertUnwindSafe(|| {
            let mem: VfsPath = MemoryFS::new().into();
            mem.join("out").unwrap().create_file().unwrap().write_all(b"O").unwrap();
            let base = mem.join("r").unwrap(); base.create_dir().unwrap();
            base.join("a").unwrap().create_file().unwrap().write_all(b"A").unwrap(); base.join("d").unwrap().create_dir().unwrap();
            base.join("d/x").unwrap().create_file().unwrap().write_all(b"X").unwrap(); base.join("\u{e9}").unwrap().create_file().unwrap().write_all(b"E").unwrap();
            let fs = AltrootFS::new(base.clone());
            let strip = |v: Vec<(String, Option<Vec<u8>>, Option<std::time::SystemTime>, Option<std::time::SystemTime>)>| -> Vec<(String, Option<Vec<u8>>)> { v.into_iter().map(|(p, c, _, _)| (p, c)).collect() };
            let before = strip(snapshot(&mem));
            let res = fs.copy_file(s, d);
            tr_res("copy_file", &res);
            let after = strip(snapshot(&mem));
            let at = |t: &Vec<(String, Option<Vec<u8>>)>, q: &str| t.iter().find(|(p, _)| p == &format!("/r{}", q)).map(|(_, c)| c.clone());
            if d.is_empty() {
                match &res { Err(e) if matches!(e.kind(), VfsErrorKind::NotSupported) => {}, other => return Some(format!("the root as destination must be refused as NotSupported, got {:?}", other.as_ref().map_err(|e| kind_name(e)))) }
                if before != after { return Some("a refused copy changed the tree".into()); }
            }
            if !d.is_empty() && at(&before, d).is_some() {
                if res.is_ok() { return Some("an existing destination was overwritten (Ok)".into()); }
                if before != after { return Some("a copy onto an existing destination changed the tree".into()); }
            }
            if res.is_ok() {
                let src = at(&before, s);
                match src { Some(Some(bytes)) if !s.is_empty() => { if at(&after, d) != Some(Some(bytes)) { return Some("Ok, but the destination does not hold the source bytes".into()); } }
                            _ => return Some("Ok although the source is not a file of the view".into()) }
            }
            for (p, c) in &before { if *p != format!("/r{}", d) && after.iter().find(|(q, _)| q == p).map(|(_, c2)| c2) != Some(c) { return Some(format!("entry {} changed although it is not the destination", p)); } }
            for (p, _) in &after { if *p != format!("/r{}", d) && !before.iter().any(|(q, _)| q == p) { return Some(format!("entry {} appeared although it is not the destination", p)); } }
            None
        }));
        let what = format!("AltrootFS(/r)::copy_file({:?}, {:?})", s, d);
        match res { Err(_) => r.fail(what, "panicked".into()), Ok(Some(x)) => r.fail(what, x), Ok(None) => {} }
    } }
    r.done()
}

// ------------------------------------------------------------------------------------------------ overlay frame (C08, C10)
fn snapshot(root: &VfsPath) -> Vec<(String, Option<Vec<u8>>, Option<std::time::SystemTime>, Option<std::time::SystemTime>)> {
    let mut out = vec![];
    for p in root.walk_dir().unwrap() { let p = p.unwrap(); let md = p.metadata().unwrap();
        let c = if p.is_file().unwrap() { let mut b = vec![]; p.open_file().unwrap().read_to_end(&mut b).unwrap(); Some(b) } else { None }; out.push((p.as_str().to_string(), c, md.modified, md.created)); }
    out.sort();
    for (p, c, _, _) in &out { tr(&format!("snap {} {:?}", p, c.as_ref().map(|b| (b.len(), b.iter().fold(0u64, |a, x| a.wrapping_mul(31).wrapping_add(*x as u64)))))); }
    out
}
fn oracle_overlay(depth: usize) -> bool {
    let mut r = Report::new("overlay");
    #[derive(Clone, Copy, Debug)]
    enum O { Mut(Op), Exists, Meta, ReadDir, Read, Walk, SetTime }
    let ops = [O::Mut(Op::CreateDir), O::Mut(Op::CreateFile), O::Mut(Op::Append), O::Mut(Op::RemoveFile), O::Mut(Op::RemoveDir), O::Mut(Op::CreateDirAll), O::Mut(Op::RemoveDirAll), O::Mut(Op::MoveTo), O::Mut(Op::CopyTo), O::Exists, O::Meta, O::ReadDir, O::Read, O::Walk, O::SetTime];
    let paths = ["/f", "/d", "/d/g", "/n", "/d/n", "/s"];
    let steps: Vec<(O, &str)> = ops.iter().flat_map(|o| paths.iter().map(move |p| (*o, *p))).collect();
    let mut seqs: Vec<Vec<(O, &str)>> = vec![vec![]];
    for _ in 0..depth { let mut n = vec![]; for s in &seqs { for st in &steps { let mut t = s.clone(); t.push(*st); n.push(t); } } seqs = n; }
    // layouts: every layer its own filesystem; all layers sibling directories of ONE filesystem; an upper layer whose directory is created only
    // after the overlay was constructed
    for layout in ["separate", "siblings", "late-upper"] {
    for nlayers in [2usize, 3] {
        for seq in &seqs {
            r.case();
            let shared: VfsPath = MemoryFS::new().into();
            let upper: VfsPath = match layout { "separate" => MemoryFS::new().into(), "siblings" => { let u = shared.join("up").unwrap(); u.create_dir().unwrap(); u },
                                                _ => { let um: VfsPath = MemoryFS::new().into(); um.join("up").unwrap() } };
            let mut lowers: Vec<VfsPath> = vec![];
            for i in 1..nlayers {
                let l: VfsPath = if layout == "siblings" { let d = shared.join(&format!("low{}", i)).unwrap(); d.create_dir().unwrap(); d } else { MemoryFS::new().into() };
                l.join("f").unwrap().create_file().unwrap().write_all(format!("lower{}", i).as_bytes()).unwrap();
                l.join("d").unwrap().create_dir().unwrap();
                l.join("d/g").unwrap().create_file().unwrap().write_all(b"g").unwrap();
                lowers.push(l);
            }
            let mut layers = vec![upper.clone()]; layers.extend(lowers.iter().cloned());
            let ov: VfsPath = OverlayFS::new(&layers).into();
            if layout == "late-upper" { upper.create_dir().unwrap(); }
            // pre-populated upper layer (C08: all layer contents): an entry and a marker for the same path side by side
            upper.join("s").unwrap().create_file().unwrap().write_all(b"s").unwrap();
            upper.join(".whiteout").unwrap().create_dir_all().unwrap(); upper.join(".whiteout/s_wo").unwrap().create_file().unwrap();
            // stray content of the bookkeeping folder that is no marker: a file whose name is shorter than the marker suffix (multi-byte) and a directory
            upper.join(".whiteout/é").unwrap().create_file().unwrap(); upper.join(".whiteout/d").unwrap().create_dir().unwrap(); upper.join(".whiteout/d/x").unwrap().create_file().unwrap();
            // a marker whose entry is in no layer any more (created and removed through the overlay)
            ov.join("n0").unwrap().create_file().unwrap().write_all(b"0").unwrap(); ov.join("n0").unwrap().remove_file().unwrap();
            let before: Vec<_> = lowers.iter().map(snapshot).collect();
            let res = catch_unwind(AssertUnwindSafe(|| {
                for (i, (o, p)) in seq.iter().enumerate() {
                    let q = ov.join(&p[1..]).unwrap();
                    let upper_before = snapshot(&upper);
                    let observer = !matches!(o, O::Mut(_) | O::SetTime);
                    match o {
                        O::Mut(op) => { let _ = real_apply(&ov, *op, p); }
                        O::Exists => { let _ = q.exists(); let _ = q.is_file(); let _ = q.is_dir(); }
                        O::Meta => { let _ = q.metadata(); }
                        O::ReadDir => { if let Ok(it) = q.read_dir() { let names: Vec<String> = it.map(|c| c.filename()).collect();
                                          if names.iter().any(|n| n == ".whiteout") { return Some(format!("step {} read_dir({:?}) lists the bookkeeping folder", i, p)); } }
                                        if let Ok(it) = ov.read_dir() { if it.map(|c| c.filename()).any(|n| n == ".whiteout") { return Some(format!("step {}: overlay root lists '.whiteout'", i)); } } }
                        O::Read => { let _ = q.read_to_string(); }
                        O::Walk => { if let Ok(w) = ov.walk_dir() { for e in w { if let Ok(e) = e { if e.as_str().contains(".whiteout") { return Some(format!("step {}: walk_dir yields {:?}", i, e.as_str())); } } } } }
                        O::SetTime => { let _ = q.set_modification_time(std::time::SystemTime::UNIX_EPOCH); }
                    }
                    for (k, l) in lowers.iter().enumerate() { if snapshot(l) != before[k] { return Some(format!("step {} {:?}({:?}): lower layer {} changed", i, o, p, k + 1)); } }
                    if observer && snapshot(&upper) != upper_before { return Some(format!("step {} {:?}({:?}): an observer changed the upper layer", i, o, p)); }
                }
                None
            }));
            match res { Err(_) => r.fail(format!("layout={} layers={} {:?}", layout, nlayers, seq), "panicked".into()), Ok(Some(d)) => r.fail(format!("layout={} layers={} {:?}", layout, nlayers, seq), d), Ok(None) => {} }
        }
    }
    }
    r.done()
}

// ------------------------------------------------------------------------------------------------ overlay union semantics (C09, C10)
/// OverlayFS over pre-populated layers must behave like ONE plain tree initialised with the upper-shadows-lower union.
/// Operations in the input classes of the known findings (known_findings.json) are not generated: create_dir / create_file(dir) over an
/// entry that the upper layer does not have, type-mismatched removes, remove_dir of a non-empty directory.
/// lower-layer content longer than any copy buffer (a copy-up that stops early shows)
fn big_h() -> Vec<u8> { (0..20_000u32).map(|i| (i % 251) as u8).collect() }
fn oracle_union(depth: usize) -> bool {
    let mut r = Report::new("union.overlay");
    let universe = ["", "/f", "/d", "/d/g", "/é", "/n", "/d/n", "/e", "/mv", "/d/s", "/d/s/n"];
    let ops = [Op::CreateDir, Op::CreateFile, Op::Append, Op::RemoveFile, Op::RemoveDir, Op::RemoveDirAll, Op::CreateDirAll, Op::MoveTo, Op::CopyTo];
    let steps: Vec<(Op, &str)> = ops.iter().flat_map(|o| universe[1..].iter().map(move |p| (*o, *p))).collect();
    let mut seqs: Vec<Vec<(Op, &str)>> = vec![vec![]];
    for _ in 0..depth { let mut n = vec![]; for s in &seqs { for st in &steps { let mut t = s.clone(); t.push(*st); n.push(t); } } seqs = n; }
    for (upper_has_f, f_removed) in [(false, false), (true, false), (false, true)] {
        'seq: for seq in &seqs {
            let upper: VfsPath = MemoryFS::new().into();
            let l1: VfsPath = MemoryFS::new().into();
            let l2: VfsPath = MemoryFS::new().into();
            l1.join("d").unwrap().create_dir().unwrap();
            l1.join("d/g").unwrap().create_file().unwrap().write_all(b"g1").unwrap();
            l2.join("d").unwrap().create_dir().unwrap(); l2.join("d/s").unwrap().create_dir().unwrap();
            l1.join("f").unwrap().create_file().unwrap().write_all(b"f1").unwrap();
            l1.join("e").unwrap().create_dir().unwrap();
            l2.join("f").unwrap().create_file().unwrap().write_all(b"f2").unwrap();
            l2.join("é").unwrap().create_file().unwrap().write_all(&big_h()).unwrap();
            // names ending in "_wo" are reserved by the overlay (C01 leaves them unspecified) and are not generated: on the pinned tree the marker of
            // "/f" (.whiteout/f_wo) collides with the marker folder of a directory "/f_wo"
            let mut m: Model = BTreeMap::new();
            m.insert(String::new(), Node::Dir);
            m.insert("/d".into(), Node::Dir); m.insert("/d/g".into(), Node::File(b"g1".to_vec())); m.insert("/f".into(), Node::File(b"f1".to_vec()));
            m.insert("/e".into(), Node::Dir); m.insert("/é".into(), Node::File(big_h())); m.insert("/d/s".into(), Node::Dir);
            if upper_has_f { upper.join("f").unwrap().create_file().unwrap().write_all(b"f0").unwrap(); m.insert("/f".into(), Node::File(b"f0".to_vec())); }
            let ov: VfsPath = OverlayFS::new(&[upper.clone(), l1, l2]).into();
            if f_removed { ov.join("f").unwrap().remove_file().unwrap(); m.remove("/f"); }
            // filter out the input classes of the known findings (evaluated on the model / upper layer as the sequence proceeds)
            let mut probe = m.clone();
            for (op, p) in seq {
                let in_upper = |q: &str| upper.join(&q[1..]).unwrap().exists().unwrap_or(false);
                let _ = in_upper;
                let skip = match op {
                    Op::CreateDir | Op::CreateDirAll => probe.contains_key(*p) || p.split('/').filter(|c| !c.is_empty()).scan(String::new(), |acc, c| { *acc = format!("{}/{}", acc, c); Some(acc.clone()) }).any(|pre| matches!(probe.get(&pre), Some(Node::File(_)))),
                    Op::CreateFile => matches!(probe.get(*p), Some(Node::Dir)),
                    Op::RemoveFile => matches!(probe.get(*p), Some(Node::Dir)),
                    Op::RemoveDir => matches!(probe.get(*p), Some(Node::File(_))) || !children(&probe, p).is_empty(),
                    // transfers: only file sources (the wrong-type case is unspecified); a move removes through the overlay, same filter as RemoveFile
                    Op::MoveTo | Op::CopyTo => !matches!(probe.get(*p), Some(Node::File(_))),
                    _ => false,
                };
                if skip { continue 'seq; }
                let _ = model_apply(&mut probe, *op, p);
            }
            r.case();
            let res = catch_unwind(AssertUnwindSafe(|| {
                for (i, (op, p)) in seq.iter().enumerate() {
                    let want = model_apply(&mut m, *op, p);
                    let got = real_apply(&ov, *op, p);
                    if got.is_ok() != want.is_ok() { return Some(format!("step {} {:?}({:?}): got {:?}, union model {:?}", i, op, p, got.map_err(|e| e.to_string()), want)); }
                    if let (Err(e), Err(EC::NotFound)) = (&got, &want) { if class_of(e) != EC::NotFound { return Some(format!("step {} {:?}({:?}): error class {:?}, expected FileNotFound", i, op, p, e.kind())); } }
                    if let Some(d) = compare(&ov, &m, &universe) { return Some(format!("after step {} {:?}({:?}): {}", i, op, p, d)); }
                }
                None
            }));
            match res { Err(_) => r.fail(format!("upper_has_f={} f_removed={} {:?}", upper_has_f, f_removed, seq), "panicked".into()), Ok(Some(d)) => r.fail(format!("upper_has_f={} f_removed={} {:?}", upper_has_f, f_removed, seq), d), Ok(None) => {} }
        }
    }
    r.done()
}

// ------------------------------------------------------------------------------------------------ transfers (C11)
fn oracle_transfer() -> bool {
    let mut r = Report::new("transfer");
    let contents: [&[u8]; 4] = [b"", b"x", &[0xff, 0x00, 0x7f], &[b'z'; 9000]];
    for same in [true, false] {
        for alt_src in [false, true] {
            for content in contents {
                for mv in [false, true] {
                    for dest_exists in [false, true] {
                        r.case();
                        let a: VfsPath = MemoryFS::new().into();
                        let b: VfsPath = if same { a.clone() } else { MemoryFS::new().into() };
                        a.join("base").unwrap().create_dir().unwrap();
                        let src_root: VfsPath = if alt_src { AltrootFS::new(a.join("base").unwrap()).into() } else { a.join("base").unwrap() };
                        let dst_root: VfsPath = if alt_src && same { src_root.clone() } else { b.clone() };
                        let src = src_root.join("s.bin").unwrap();
                        src.create_file().unwrap().write_all(content).unwrap();
                        b.join("bystander").unwrap().create_file().unwrap().write_all(b"by").unwrap();
                        let dst = dst_root.join("t.bin").unwrap();
                        if dest_exists { dst.create_file().unwrap().write_all(b"old").unwrap(); }
                        let what = format!("same_fs={} altroot_src={} len={} move={} dest_exists={}", same, alt_src, content.len(), mv, dest_exists);
                        let res = if mv { src.move_file(&dst) } else { src.copy_file(&dst) };
                        tr_res(&what, &res); snapshot(&a); snapshot(&b);
                        let read = |p: &VfsPath| -> Option<Vec<u8>> { let mut v = vec![]; p.open_file().ok()?.read_to_end(&mut v).ok()?; Some(v) };
                        if dest_exists {
                            if res.is_ok() { r.fail(what.clone(), "existing destination was not refused".into()); }
                            if read(&dst) != Some(b"old".to_vec()) || read(&src) != Some(content.to_vec()) { r.fail(what.clone(), "refused transfer had side effects".into()); }
                        } else {
                            match res { Err(e) => r.fail(what.clone(), format!("failed: {}", e)),
                                Ok(()) => {
                                    if read(&dst) != Some(content.to_vec()) { r.fail(what.clone(), format!("destination holds {:?}", read(&dst).map(|v| v.len()))); }
                                    if mv { if src.exists().unwrap() { r.fail(what.clone(), "source still exists after move".into()); } }
                                    else if read(&src) != Some(content.to_vec()) { r.fail(what.clone(), "source changed by copy".into()); }
                                } }
                        }
                        if read(&b.join("bystander").unwrap()) != Some(b"by".to_vec()) { r.fail(what.clone(), "an unrelated file changed".into()); }
                    }
                }
            }
        }
    }
    r.done()
}

// ------------------------------------------------------------------------------------------------ fault injection (C20)
use std::sync::atomic::{AtomicI64, AtomicU64, Ordering};
use std::sync::Arc;
#[derive(Debug)]
struct FaultState { countdown: AtomicI64, calls: AtomicU64 }
/// MemoryFS whose k-th trait call fails with an I/O error (k counted from 0; negative = never)
#[derive(Debug)]
struct FaultFS { inner: MemoryFS, st: Arc<FaultState> }
impl FaultFS {
    fn tick(&self) -> VfsResult<()> {
        self.st.calls.fetch_add(1, Ordering::SeqCst);
        let c = self.st.countdown.fetch_sub(1, Ordering::SeqCst);
        if c == 0 { Err(VfsErrorKind::IoError(std::io::Error::new(std::io::ErrorKind::Other, "injected fault")).into()) } else { Ok(()) }
    }
}
impl vfs::FileSystem for FaultFS {
    fn read_dir(&self, p: &str) -> VfsResult<Box<dyn Iterator<Item = String> + Send>> { self.tick()?; self.inner.read_dir(p) }
    fn create_dir(&self, p: &str) -> VfsResult<()> { self.tick()?; self.inner.create_dir(p) }
    fn open_file(&self, p: &str) -> VfsResult<Box<dyn vfs::SeekAndRead + Send>> { self.tick()?; self.inner.open_file(p) }
    fn create_file(&self, p: &str) -> VfsResult<Box<dyn vfs::SeekAndWrite + Send>> { self.tick()?; self.inner.create_file(p) }
    fn append_file(&self, p: &str) -> VfsResult<Box<dyn vfs::SeekAndWrite + Send>> { self.tick()?; self.inner.append_file(p) }
    fn metadata(&self, p: &str) -> VfsResult<vfs::VfsMetadata> { self.tick()?; self.inner.metadata(p) }
    fn exists(&self, p: &str) -> VfsResult<bool> { self.tick()?; self.inner.exists(p) }
    fn remove_file(&self, p: &str) -> VfsResult<()> { self.tick()?; self.inner.remove_file(p) }
    fn remove_dir(&self, p: &str) -> VfsResult<()> { self.tick()?; self.inner.remove_dir(p) }
}
fn faulty() -> (VfsPath, Arc<FaultState>) {
    let st = Arc::new(FaultState { countdown: AtomicI64::new(-1), calls: AtomicU64::new(0) });
    (VfsPath::new(FaultFS { inner: MemoryFS::new(), st: st.clone() }), st)
}
fn put(root: &VfsPath, p: &str, c: Option<&[u8]>) { let q = root.join(p).unwrap(); match c { None => q.create_dir_all().unwrap(), Some(b) => { q.parent().create_dir_all().unwrap(); q.create_file().unwrap().write_all(b).unwrap(); } } }
fn listing(root: &VfsPath) -> Vec<(String, Option<Vec<u8>>)> { snapshot(root).into_iter().map(|(p, c, _, _)| (p, c)).collect() }
/// run `scenario(k)` for every fault position k; the scenario returns Some(description) when success was reported without the full effect
fn oracle_faults() -> bool {
    let mut r = Report::new("faults");
    type Scn = (&'static str, Box<dyn Fn(i64) -> (u64, Option<String>)>);
    let tree: Vec<(&str, Option<&[u8]>)> = vec![("d/x", Some(b"x")), ("d/s/y", Some(b"yy")), ("d/e", None)];
    let t2 = tree.clone(); let t3 = tree.clone(); let t4 = tree.clone(); let t5 = tree.clone(); let t6 = tree.clone();
    let scenarios: Vec<Scn> = vec![
        ("create_dir_all", Box::new(|k| { let (root, st) = faulty(); st.calls.store(0, Ordering::SeqCst); st.countdown.store(k, Ordering::SeqCst);
            let res = root.join("a/b/c").unwrap().create_dir_all(); let n = st.calls.load(Ordering::SeqCst); st.countdown.store(-1, Ordering::SeqCst);
            let full = ["a", "a/b", "a/b/c"].iter().all(|p| root.join(p).unwrap().is_dir().unwrap());
            // C12: a failure names the directory that could not be created (a prefix of the requested path), never a placeholder or a backend path
            let named = match &res { Err(e) => ["/a", "/a/b", "/a/b/c"].contains(&e.path().as_str()), Ok(()) => true };
            (n, if res.is_ok() && !full { Some("Ok but not every prefix is a directory".into()) } else if !named { Some(format!("the error names {:?}, not a prefix of the requested path", res.as_ref().err().map(|e| e.path().clone()))) } else { None }) })),
        ("remove_dir_all", Box::new(move |k| { let (root, st) = faulty(); for (p, c) in &t2 { put(&root, p, *c); } st.calls.store(0, Ordering::SeqCst); st.countdown.store(k, Ordering::SeqCst);
            let res = root.join("d").unwrap().remove_dir_all(); let n = st.calls.load(Ordering::SeqCst); st.countdown.store(-1, Ordering::SeqCst);
            (n, if res.is_ok() && root.join("d").unwrap().exists().unwrap() { Some("Ok but the directory still exists".into()) } else { None }) })),
        ("copy_file", Box::new(|k| { let (root, st) = faulty(); put(&root, "s", Some(b"payload")); st.calls.store(0, Ordering::SeqCst); st.countdown.store(k, Ordering::SeqCst);
            let res = root.join("s").unwrap().copy_file(&root.join("t").unwrap()); let n = st.calls.load(Ordering::SeqCst); st.countdown.store(-1, Ordering::SeqCst);
            let ok = root.join("t").unwrap().read_to_string().map(|x| x == "payload").unwrap_or(false) && root.join("s").unwrap().read_to_string().map(|x| x == "payload").unwrap_or(false);
            (n, if res.is_ok() && !ok { Some("Ok but destination/source do not hold the bytes".into()) } else { None }) })),
        ("move_file", Box::new(|k| { let (root, st) = faulty(); put(&root, "s", Some(b"payload")); st.calls.store(0, Ordering::SeqCst); st.countdown.store(k, Ordering::SeqCst);
            let res = root.join("s").unwrap().move_file(&root.join("t").unwrap()); let n = st.calls.load(Ordering::SeqCst); st.countdown.store(-1, Ordering::SeqCst);
            let ok = root.join("t").unwrap().read_to_string().map(|x| x == "payload").unwrap_or(false) && !root.join("s").unwrap().exists().unwrap();
            (n, if res.is_ok() && !ok { Some("Ok but destination lacks the bytes or the source remains".into()) } else { None }) })),
        ("copy_dir", Box::new(move |k| { let (root, st) = faulty(); for (p, c) in &t3 { put(&root, p, *c); } let want: Vec<_> = listing(&root.join("d").unwrap()).into_iter().map(|(p, c)| (p[2..].to_string(), c)).collect();
            st.calls.store(0, Ordering::SeqCst); st.countdown.store(k, Ordering::SeqCst);
            let res = root.join("d").unwrap().copy_dir(&root.join("o").unwrap()); let n = st.calls.load(Ordering::SeqCst); st.countdown.store(-1, Ordering::SeqCst);
            let got: Vec<_> = if root.join("o").unwrap().exists().unwrap() { listing(&root.join("o").unwrap()).into_iter().map(|(p, c)| (p[2..].to_string(), c)).collect() } else { vec![] };
            (n, if res.is_ok() && got != want { Some(format!("Ok but the copy is {:?}", got.iter().map(|x| &x.0).collect::<Vec<_>>())) } else { None }) })),
        ("move_dir", Box::new(move |k| { let (root, st) = faulty(); for (p, c) in &t4 { put(&root, p, *c); } let want: Vec<_> = listing(&root.join("d").unwrap()).into_iter().map(|(p, c)| (p[2..].to_string(), c)).collect();
            st.calls.store(0, Ordering::SeqCst); st.countdown.store(k, Ordering::SeqCst);
            let res = root.join("d").unwrap().move_dir(&root.join("o").unwrap()); let n = st.calls.load(Ordering::SeqCst); st.countdown.store(-1, Ordering::SeqCst);
            let got: Vec<_> = if root.join("o").unwrap().exists().unwrap() { listing(&root.join("o").unwrap()).into_iter().map(|(p, c)| (p[2..].to_string(), c)).collect() } else { vec![] };
            (n, if res.is_ok() && (got != want || root.join("d").unwrap().exists().unwrap()) { Some(format!("Ok but the moved tree is {:?} / source exists {}", got.iter().map(|x| &x.0).collect::<Vec<_>>(), root.join("d").unwrap().exists().unwrap())) } else { None }) })),
        ("walk_dir", Box::new(move |k| { let (root, st) = faulty(); for (p, c) in &t5 { put(&root, p, *c); } st.calls.store(0, Ordering::SeqCst); st.countdown.store(k, Ordering::SeqCst);
            let w = root.walk_dir(); let mut oks = 0; let mut errs = 0; if let Ok(w) = w { for e in w { match e { Ok(_) => oks += 1, Err(_) => errs += 1 } } } else { errs += 1; }
            let n = st.calls.load(Ordering::SeqCst); st.countdown.store(-1, Ordering::SeqCst);
            (n, if errs == 0 && oks != 5 { Some(format!("walk yielded {} of 5 entries and no error", oks)) } else { None }) })),
        ("read_to_string", Box::new(|k| { let (root, st) = faulty(); put(&root, "s", Some(b"text")); st.calls.store(0, Ordering::SeqCst); st.countdown.store(k, Ordering::SeqCst);
            let res = root.join("s").unwrap().read_to_string(); let n = st.calls.load(Ordering::SeqCst); st.countdown.store(-1, Ordering::SeqCst);
            (n, match res { Ok(x) if x != "text" => Some(format!("Ok({:?})", x)), _ => None }) })),
        ("altroot.exists+remove_dir_all", Box::new(move |k| { let (root, st) = faulty(); put(&root, "r", None); let alt: VfsPath = AltrootFS::new(root.join("r").unwrap()).into(); for (p, c) in &t6 { put(&alt, p, *c); }
            st.calls.store(0, Ordering::SeqCst); st.countdown.store(k, Ordering::SeqCst);
            let e = alt.join("d/x").unwrap().exists(); let res = alt.join("d").unwrap().remove_dir_all(); let n = st.calls.load(Ordering::SeqCst); st.countdown.store(-1, Ordering::SeqCst);
            let mut bad = None;
            if let Ok(false) = e { bad = Some("exists() of a present entry reported Ok(false)".to_string()); }
            if res.is_ok() && alt.join("d").unwrap().exists().unwrap() { bad = Some("remove_dir_all Ok but the directory still exists".into()); }
            (n, bad) })),
        ("overlay.upper_faulty", Box::new(|k| { let (up, st) = faulty(); let low: VfsPath = MemoryFS::new().into(); put(&low, "f", Some(b"low")); put(&low, "g", Some(b"g")); put(&low, "d/h", Some(b"h"));
            let ov: VfsPath = OverlayFS::new(&[up.clone(), low.clone()]).into(); ov.join("g").unwrap().remove_file().unwrap(); let low_before = snapshot(&low);
            st.calls.store(0, Ordering::SeqCst); st.countdown.store(k, Ordering::SeqCst);
            let e = ov.join("f").unwrap().exists(); let names = ov.read_dir().map(|it| { let mut v: Vec<String> = it.map(|p| p.filename()).collect(); v.sort(); v });
            let ap = ov.join("f").unwrap().append_file().map(|mut h| h.write_all(b"+").is_ok()); let rm = ov.join("d/h").unwrap().remove_file(); let mk = ov.join("n").unwrap().create_dir();
            let n = st.calls.load(Ordering::SeqCst); st.countdown.store(-1, Ordering::SeqCst);
            let mut bad = None;
            if let Ok(false) = e { bad = Some("exists(/f) reported Ok(false) for a visible entry".to_string()); }
            if let Ok(v) = &names { if v.iter().any(|x| x == "g") || !v.iter().any(|x| x == "f") { bad = Some(format!("root listing {:?} (removed entry shown or visible entry missing)", v)); } }
            if let Ok(true) = ap { if ov.join("f").unwrap().read_to_string().map(|x| x != "low+").unwrap_or(true) { bad = Some("append Ok but content is not low+".into()); } }
            if rm.is_ok() && ov.join("d/h").unwrap().exists().unwrap() { bad = Some("remove_file Ok but the entry is still visible".into()); }
            if mk.is_ok() && !ov.join("n").unwrap().is_dir().unwrap() { bad = Some("create_dir Ok but no directory".into()); }
            if snapshot(&low) != low_before { bad = Some("a lower layer changed".into()); }
            (n, bad) })),
        ("overlay.recreate", Box::new(|k| { let (up, st) = faulty(); let low: VfsPath = MemoryFS::new().into(); put(&low, "f", Some(b"low")); put(&low, "d/h", Some(b"h"));
            let ov: VfsPath = OverlayFS::new(&[up.clone(), low.clone()]).into(); ov.join("f").unwrap().remove_file().unwrap(); ov.join("d/h").unwrap().remove_file().unwrap(); ov.join("d").unwrap().remove_dir().unwrap();
            st.calls.store(0, Ordering::SeqCst); st.countdown.store(k, Ordering::SeqCst);
            let mk = ov.join("f").unwrap().create_file().map(|mut h| h.write_all(b"new").is_ok()); let md = ov.join("d").unwrap().create_dir();
            let n = st.calls.load(Ordering::SeqCst); st.countdown.store(-1, Ordering::SeqCst);
            let mut bad = None;
            if let Ok(true) = mk { if ov.join("f").unwrap().read_to_string().map(|x| x != "new").unwrap_or(true) { bad = Some("create_file over a removed entry reported Ok but the file is not there with the new bytes".to_string()); } }
            if md.is_ok() && !(ov.join("d").unwrap().is_dir().unwrap_or(false) && ov.join("d").unwrap().read_dir().map(|it| it.count() == 0).unwrap_or(false)) { bad = Some("create_dir over a removed directory reported Ok but no empty directory is visible".into()); }
            (n, bad) })),
        ("overlay.lower_faulty", Box::new(|k| { let up: VfsPath = MemoryFS::new().into(); let (low, st) = faulty(); put(&low, "f", Some(b"low")); put(&low, "d/h", Some(b"h"));
            let ov: VfsPath = OverlayFS::new(&[up.clone(), low.clone()]).into();
            st.calls.store(0, Ordering::SeqCst); st.countdown.store(k, Ordering::SeqCst);
            let e = ov.join("f").unwrap().exists(); let txt = ov.join("f").unwrap().read_to_string(); let names = ov.join("d").unwrap().read_dir().map(|it| it.map(|p| p.filename()).collect::<Vec<_>>());
            let n = st.calls.load(Ordering::SeqCst); st.countdown.store(-1, Ordering::SeqCst);
            let mut bad = None;
            if let Ok(false) = e { bad = Some("exists(/f) reported Ok(false) for a visible entry".to_string()); }
            if let Ok(t) = txt { if t != "low" { bad = Some(format!("read_to_string Ok({:?})", t)); } }
            if let Ok(v) = names { if v != vec!["h".to_string()] { bad = Some(format!("listing of /d is {:?}", v)); } }
            (n, bad) })),
    ];
    for (name, scn) in &scenarios {
        let run = |k: i64| catch_unwind(AssertUnwindSafe(|| scn(k)));
        TRACE_ON.store(false, std::sync::atomic::Ordering::SeqCst);
        let base_run = run(-1);
        TRACE_ON.store(true, std::sync::atomic::Ordering::SeqCst);
        let (n, base) = match base_run { Ok(x) => x, Err(_) => { r.fail(format!("{} fault-free", name), "panicked".into()); continue; } };
        if let Some(b) = base { r.fail(format!("{} fault-free", name), b); }
        for k in 0..n as i64 {
            r.case();
            // which underlying call is the k-th depends on HashMap iteration order: only the verdict of the scenario is traced
            TRACE_ON.store(false, std::sync::atomic::Ordering::SeqCst);
            let out = run(k);
            TRACE_ON.store(true, std::sync::atomic::Ordering::SeqCst);
            tr(&format!("{} {:?}", name, out.as_ref().map(|x| x.1.is_some()).map_err(|_| ())));
            let _ = k;
            match out { Err(_) => r.fail(format!("{} with call #{} failing", name, k), "panicked".into()),
                           Ok((_, Some(b))) => r.fail(format!("{} with call #{} failing", name, k), b), Ok((_, None)) => {} }
        }
    }
    r.done()
}

// ------------------------------------------------------------------------------------------------ copy_dir / move_dir (C11)
fn oracle_copydir() -> bool {
    let mut r = Report::new("copydir");
    // source trees: entries whose names repeat / extend the source directory's name, empty directories, nested and binary files, dot names
    let trees: Vec<Vec<(&str, Option<&[u8]>)>> = vec![
        vec![],
        vec![("x", Some(b"1"))],
        vec![("data", None), ("data/data", Some(b"dd")), ("database.bin", Some(&[0xff, 0x00])), ("sub", None), ("sub/deep", None), ("sub/deep/f", Some(b"f")), (".hid", Some(b"h")), ("empty", None)],
    ];
    for tree in &trees {
      for srcname in ["data", "dätä", "é/data"] {
        for same in [true, false] {
            for mv in [false, true] {
                for dest_exists in [false, true] {
                    r.case();
                    let a: VfsPath = MemoryFS::new().into();
                    let b: VfsPath = if same { a.clone() } else { MemoryFS::new().into() };
                    let src = a.join(srcname).unwrap();
                    src.create_dir_all().unwrap();
                    for (p, c) in tree { let q = src.join(p).unwrap(); match c { None => q.create_dir().unwrap(), Some(bytes) => { q.create_file().unwrap().write_all(bytes).unwrap(); } } }
                    b.join("keep").unwrap().create_file().unwrap().write_all(b"k").unwrap();
                    let dst = b.join("out").unwrap();
                    if dest_exists { dst.create_dir().unwrap(); }
                    let what = format!("source={:?} tree={:?} same_fs={} move={} dest_exists={}", srcname, tree.iter().map(|t| t.0).collect::<Vec<_>>(), same, mv, dest_exists);
                    let before = snapshot(&src);
                    let res: Result<Option<u64>, String> = catch_unwind(AssertUnwindSafe(|| if mv { src.move_dir(&dst).map(|_| None) } else { src.copy_dir(&dst).map(Some) })).map_err(|_| "panic".to_string()).and_then(|x| x.map_err(|e| e.to_string()));
                    tr(&format!("{} {:?}", what, res)); snapshot(&a); snapshot(&b);
                    if dest_exists {
                        if res.is_ok() { r.fail(what.clone(), "existing destination was not refused".into()); }
                        if snapshot(&src) != before || dst.read_dir().unwrap().count() != 0 { r.fail(what.clone(), "refused transfer had side effects".into()); }
                    } else {
                        match res {
                            Err(e) => r.fail(what.clone(), format!("failed: {}", e)),
                            Ok(count) => {
                                let rel = |v: &Vec<(String, Option<Vec<u8>>, Option<std::time::SystemTime>, Option<std::time::SystemTime>)>, pre: &str| -> Vec<(String, Option<Vec<u8>>)> { v.iter().map(|(p, c, _, _)| (p[pre.len()..].to_string(), c.clone())).collect() };
                                let got = rel(&snapshot(&dst), "/out");
                                let want = rel(&before, &format!("/{}", srcname));
                                if got != want { r.fail(what.clone(), format!("destination tree {:?}, expected {:?}", got.iter().map(|x| &x.0).collect::<Vec<_>>(), want.iter().map(|x| &x.0).collect::<Vec<_>>())); }
                                if let Some(n) = count { if n != tree.len() as u64 { r.fail(what.clone(), format!("copy_dir returned {}, expected {}", n, tree.len())); } }
                                if mv { if src.exists().unwrap() { r.fail(what.clone(), "source still exists after move_dir".into()); } }
                                else if snapshot(&src) != before { r.fail(what.clone(), "source changed by copy_dir".into()); }
                            }
                        }
                    }
                    if b.join("keep").unwrap().read_to_string().unwrap() != "k" { r.fail(what.clone(), "an unrelated file changed".into()); }
                    // nothing may land outside the destination directory
                    let mut top: Vec<String> = b.read_dir().unwrap().map(|p| p.filename()).collect(); top.sort();
                    let mut want_top: Vec<String> = vec!["keep".to_string(), "out".to_string()];
                    if same { if !(mv && !dest_exists) { want_top.push(srcname.split('/').next().unwrap().to_string()); } else if srcname.contains('/') { want_top.push(srcname.split('/').next().unwrap().to_string()); } }
                    want_top.sort(); want_top.dedup();
                    if top != want_top { r.fail(what.clone(), format!("destination filesystem root lists {:?}, expected {:?}", top, want_top)); }
                }
            }
        }
      }
    }
    // a PhysicalFS source (the one backend with a native move_dir): to the same instance, to another PhysicalFS instance, to a MemoryFS
    let tree = &trees[2];
    for destkind in ["same", "other-physical", "memory"] {
        for mv in [false, true] {
            r.case();
            let base = std::env::temp_dir().join(format!("vfs-oracle-copydir-{}-{}-{}", std::process::id(), destkind, mv));
            let _ = std::fs::remove_dir_all(&base);
            std::fs::create_dir_all(base.join("a")).unwrap(); std::fs::create_dir_all(base.join("b")).unwrap();
            let a: VfsPath = vfs::PhysicalFS::new(base.join("a")).into();
            let b: VfsPath = match destkind { "same" => a.clone(), "other-physical" => vfs::PhysicalFS::new(base.join("b")).into(), _ => MemoryFS::new().into() };
            let what = format!("physical source, destination={} move={}", destkind, mv);
            let res = catch_unwind(AssertUnwindSafe(|| {
                let src = a.join("data").unwrap(); src.create_dir().unwrap();
                // a directory of the same name as the destination exists on the source filesystem: a destination path must never be read against it
                a.join("keepdir").unwrap().create_dir().unwrap();
                for (p, c) in tree { let q = src.join(p).unwrap(); match c { None => q.create_dir().unwrap(), Some(bytes) => { q.create_file().unwrap().write_all(bytes).unwrap(); } } }
                if destkind != "same" { b.join("keepdir").unwrap().create_dir().unwrap(); }
                let dst = b.join("keepdir/out").unwrap();
                let strip = |v: Vec<(String, Option<Vec<u8>>, Option<std::time::SystemTime>, Option<std::time::SystemTime>)>, pre: &str| -> Vec<(String, Option<Vec<u8>>)> { let mut o: Vec<(String, Option<Vec<u8>>)> = v.into_iter().map(|(p, c, _, _)| (p[pre.len()..].to_string(), c)).collect(); o.sort(); o };
                let before = strip(snapshot(&src), "/data");
                let out: Result<Option<u64>, String> = if mv { src.move_dir(&dst).map(|_| None).map_err(|e| e.to_string()) } else { src.copy_dir(&dst).map(Some).map_err(|e| e.to_string()) };
                tr(&format!("{} {:?}", what, out));
                match out {
                    Err(e) => return Some(format!("failed: {}", e)),
                    Ok(count) => {
                        if !dst.exists().unwrap_or(false) { return Some("the destination does not exist afterwards".into()); }
                        let got = strip(snapshot(&dst), "/keepdir/out");
                        if got != before { return Some(format!("destination tree {:?}, expected {:?}", got.iter().map(|x| &x.0).collect::<Vec<_>>(), before.iter().map(|x| &x.0).collect::<Vec<_>>())); }
                        if let Some(n) = count { if n != tree.len() as u64 { return Some(format!("copy_dir returned {}, expected {}", n, tree.len())); } }
                        if mv { if src.exists().unwrap() { return Some("source still exists after move_dir".into()); } }
                        else if strip(snapshot(&src), "/data") != before { return Some("source changed by copy_dir".into()); }
                        if destkind != "same" && a.join("keepdir").unwrap().read_dir().map(|it| it.count()).unwrap_or(99) != 0 { return Some("the transfer wrote into the SOURCE filesystem at the destination's path".into()); }
                    }
                }
                None
            }));
            let _ = std::fs::remove_dir_all(&base);
            match res { Err(_) => r.fail(what, "panicked".into()), Ok(Some(d)) => r.fail(what, d), Ok(None) => {} }
        }
    }
    r.done()
}

// ------------------------------------------------------------------------------------------------ timestamps (C19)
/// set_{creation,modification,access}_time over all fields x all ordered pairs of fields x a list of instants (epoch, sub-second parts, before
/// the epoch, far future) on files, directories and the root, for memory / physical backends and adapters over them. Overlay targets live in the
/// upper layer (the lower-layer case is the input class of the known findings overlay.set_*_time.serves_lower).
fn oracle_times() -> bool {
    use std::time::{Duration, SystemTime, UNIX_EPOCH};
    let mut r = Report::new("times");
    #[derive(Clone, Copy, Debug, PartialEq)]
    enum F { C, M, A }
    let all_times: Vec<SystemTime> = vec![UNIX_EPOCH, UNIX_EPOCH + Duration::new(1_000_000, 250_000_000), UNIX_EPOCH + Duration::new(4_000_000_000, 999_999_999),
        UNIX_EPOCH - Duration::new(1, 500_000_000), UNIX_EPOCH - Duration::new(86_400 * 365, 0), UNIX_EPOCH + Duration::new(1, 1), UNIX_EPOCH - Duration::new(0, 1)];
    // which instants the host filesystem can store at all (std only, no vfs code involved)
    let host_ok: Vec<bool> = {
        let d = std::env::temp_dir().join(format!("vfs-oracle-cal-{}", std::process::id()));
        let _ = std::fs::create_dir_all(&d);
        let f = d.join("cal");
        std::fs::write(&f, b"x").unwrap();
        let v = all_times.iter().map(|t| {
            let h = std::fs::File::options().write(true).open(&f).unwrap();
            h.set_times(std::fs::FileTimes::new().set_modified(*t).set_accessed(*t)).is_ok()
                && std::fs::metadata(&f).map(|m| m.modified().ok() == Some(*t) && m.accessed().ok() == Some(*t)).unwrap_or(false)
        }).collect();
        let _ = std::fs::remove_dir_all(&d);
        v
    };
    fn set(q: &VfsPath, f: F, t: SystemTime) -> VfsResult<()> { match f { F::C => q.set_creation_time(t), F::M => q.set_modification_time(t), F::A => q.set_access_time(t) } }
    for kind in ["memory", "altroot", "overlay", "overlay.sub", "physical", "altroot.physical"] {
        let physical = kind.contains("physical");
        for target in ["f", "d", ""] {
            for f1 in [F::C, F::M, F::A] { for f2 in [F::C, F::M, F::A] { for i1 in 0..all_times.len() {
                let i2 = (i1 + 3) % all_times.len();
                if physical && !(host_ok[i1] && host_ok[i2]) { continue; }
                let (t1, t2) = (all_times[i1], all_times[i2]);
                r.case();
                // overlay.sub: the layers are sub-directories of their filesystems; the root of the overlay is then NOT the root of the upper filesystem
                let under_upper: Option<VfsPath> = if kind == "overlay.sub" { Some(MemoryFS::new().into()) } else { None };
                let (base, extra) = if let Some(um) = &under_upper {
                    let lm: VfsPath = MemoryFS::new().into();
                    um.join("up").unwrap().create_dir().unwrap(); lm.join("low").unwrap().create_dir().unwrap();
                    let b: (VfsPath, Box<dyn Fn() -> Option<String>>) = (OverlayFS::new(&[um.join("up").unwrap(), lm.join("low").unwrap()]).into(), Box::new(|| None)); b
                } else { make_backend(if physical { "physical" } else { kind }) };
                let outside_before = under_upper.as_ref().map(|um| um.metadata().map(|m| (m.created, m.modified, m.accessed)).ok());
                let root: VfsPath = if kind == "altroot.physical" { base.join("r").unwrap().create_dir().unwrap(); AltrootFS::new(base.join("r").unwrap()).into() } else { base.clone() };
                root.join("f").unwrap().create_file().unwrap().write_all(b"abc").unwrap();
                root.join("d").unwrap().create_dir().unwrap();
                let q = if target.is_empty() { root.clone() } else { root.join(target).unwrap() };
                let res = catch_unwind(AssertUnwindSafe(|| {
                    let mut cur = match q.metadata() { Ok(m) => m, Err(e) => return Some(format!("metadata failed: {}", e)) };
                    for (step, (f, t)) in [(f1, t1), (f2, t2)].iter().enumerate() {
                        let got = set(&q, *f, *t);
                        tr_res(&format!("{} {} set {:?}", kind, target, f), &got);
                        let md = match q.metadata() { Ok(m) => m, Err(e) => return Some(format!("metadata failed after step {}: {}", step, e)) };
                        tr(&format!("{} {:?} {} {} {}", md.len, md.file_type, md.created == Some(*t), md.modified == Some(*t), md.accessed == Some(*t)));
                        match got {
                            Ok(()) => {
                                let (c, m, a) = match f { F::C => (Some(*t), cur.modified, cur.accessed), F::M => (cur.created, Some(*t), cur.accessed), F::A => (cur.created, cur.modified, Some(*t)) };
                                if md.created != c || md.modified != m || md.accessed != a { return Some(format!("step {} set {:?} to {:?}: metadata reports created {:?} modified {:?} accessed {:?}, expected {:?} {:?} {:?}", step, f, t, md.created, md.modified, md.accessed, c, m, a)); }
                            }
                            Err(e) => {
                                if !matches!(e.kind(), VfsErrorKind::NotSupported) { return Some(format!("step {} set {:?}: error {:?} on an existing entry (only not-supported is allowed)", step, f, e.kind())); }
                                if md.created != cur.created || md.modified != cur.modified || md.accessed != cur.accessed { return Some(format!("step {} set {:?} failed but changed a timestamp", step, f)); }
                            }
                        }
                        if md.len != cur.len || md.file_type != cur.file_type { return Some(format!("step {} set {:?}: len/type changed", step, f)); }
                        cur = md;
                    }
                    if let Some(um) = &under_upper { if um.metadata().map(|m| (m.created, m.modified, m.accessed)).ok() != outside_before.clone().unwrap() { return Some("a timestamp of the upper filesystem's own root (outside the overlay) changed".into()); } }
                    if root.join("f").unwrap().read_to_string().ok().as_deref() != Some("abc") { return Some("bytes of /f changed".into()); }
                    if root.join("d").unwrap().read_dir().map(|it| it.count()).unwrap_or(99) != 0 { return Some("/d is no longer an empty directory".into()); }
                    // appending preserves the creation time (in-memory backends)
                    if !physical && target == "f" {
                        let before = q.metadata().unwrap();
                        q.append_file().unwrap().write_all(b"x").unwrap();
                        let after = q.metadata().unwrap();
                        if after.created != before.created || after.len != 4 { return Some(format!("append changed created {:?} -> {:?} (len {})", before.created, after.created, after.len)); }
                        // ... also when the creation time is set while the append handle is still open
                        let mut h = q.append_file().unwrap();
                        h.write_all(b"y").unwrap();
                        if q.set_creation_time(t2).is_ok() {
                            drop(h);
                            let md = q.metadata().unwrap();
                            if md.created != Some(t2) || md.len != 5 { return Some(format!("creation time set during an append session is reported as {:?} after the commit, expected {:?} (len {})", md.created, t2, md.len)); }
                        }
                    }
                    extra()
                }));
                let what = format!("backend={} target={:?} {:?}@{:?} then {:?}@{:?}", kind, target, f1, t1, f2, t2);
                match res { Err(_) => r.fail(what, "panicked".into()), Ok(Some(d)) => r.fail(what, d), Ok(None) => {} }
            } } }
        }
    }
    r.done()
}

// ------------------------------------------------------------------------------------------------ handles that outlive their file (C13, C04)
fn oracle_handles() -> bool {
    let mut r = Report::new("handles");
    for kind in ["memory", "altroot", "overlay"] {
        for scenario in 0..9 {
            r.case();
            let (root, _extra) = make_backend(kind);
            root.join("d").unwrap().create_dir().unwrap();
            let f = root.join("d/f").unwrap();
            f.create_file().unwrap().write_all(b"abc").unwrap();
            let res = catch_unwind(AssertUnwindSafe(|| {
                match scenario {
                    0 => { let mut h = f.create_file().unwrap(); h.write_all(b"ab").unwrap(); f.remove_file().unwrap(); let _ = h.write_all(b"c"); let _ = h.flush(); drop(h); }
                    1 => { let mut h = f.append_file().unwrap(); h.write_all(b"d").unwrap(); f.remove_file().unwrap(); drop(h); }
                    2 => { let mut h = f.append_file().unwrap(); h.write_all(b"d").unwrap(); root.join("d").unwrap().remove_dir_all().unwrap(); let _ = h.flush(); drop(h); }
                    3 => { let mut h = f.open_file().unwrap(); f.remove_file().unwrap(); let mut b = vec![]; let _ = h.read_to_end(&mut b); let _ = h.seek(SeekFrom::End(-1)); let _ = h.read(&mut [0u8; 4]); }
                    4 => { let mut h = f.create_file().unwrap(); h.write_all(b"xy").unwrap(); let _ = h.seek(SeekFrom::Start(10)); f.remove_file().unwrap(); let _ = f.create_file().map(|mut g| g.write_all(b"other")); drop(h); }
                    5 => { let h1 = f.append_file().unwrap(); let mut h2 = f.append_file().unwrap(); h2.write_all(b"2").unwrap(); drop(h2); f.remove_file().unwrap(); drop(h1); }
                    6 => {
                        // two write handles on one file: every flush, and the drop, publishes exactly the buffer of its own handle (C14)
                        let mut a = f.create_file().unwrap(); a.write_all(b"AAA").unwrap(); a.flush().unwrap();
                        let mut b = f.create_file().unwrap(); b.write_all(b"zz").unwrap(); b.flush().unwrap();
                        if f.read_to_string().ok().as_deref() != Some("zz") { return Some("after the second handle's flush the file does not hold its buffer".into()); }
                        a.flush().unwrap();
                        if f.read_to_string().ok().as_deref() != Some("AAA") { return Some(format!("a repeated flush of the first handle does not publish its buffer: file holds {:?}", f.read_to_string().ok())); }
                        drop(b);
                        if f.read_to_string().ok().as_deref() != Some("zz") { return Some("dropping the second handle does not publish its buffer".into()); }
                        drop(a);
                        if f.read_to_string().ok().as_deref() != Some("AAA") { return Some(format!("dropping the first handle does not publish its buffer: file holds {:?}", f.read_to_string().ok())); }
                    }
                    8 => { // the file is replaced by a directory while a write handle is open
                           let mut h = f.append_file().unwrap(); h.write_all(b"d").unwrap(); f.remove_file().unwrap(); f.create_dir().unwrap(); let _ = h.flush(); drop(h);
                           let h2 = f.create_file(); drop(h2); }
                    _ => { let h = f.create_file().unwrap(); let mut g = f.create_file().unwrap(); g.write_all(b"late").unwrap(); drop(g); drop(h);
                           tr(&format!("idle {:?}", f.read_to_string().ok())); let h2 = f.create_file().unwrap(); f.remove_file().unwrap(); drop(h2); }
                }
                // the filesystem is still usable (no poisoned lock, no panic on later calls)
                let o = root.join("other").unwrap();
                if let Err(e) = o.create_file().and_then(|mut h| { h.write_all(b"ok")?; Ok(()) }) { return Some(format!("filesystem unusable afterwards: {}", e)); }
                if o.read_to_string().ok().as_deref() != Some("ok") { return Some("filesystem unusable afterwards: wrong content".into()); }
                if root.walk_dir().map(|w| w.filter(|e| e.is_err()).count()).unwrap_or(1) != 0 { return Some("walk_dir fails afterwards".into()); }
                snapshot(&root);
                None
            }));
            let what = format!("backend={} scenario={}", kind, scenario);
            match res { Err(_) => r.fail(what, "panicked".into()), Ok(Some(d)) => r.fail(what, d), Ok(None) => {} }
        }
    }
    r.done()
}

/// entries that vanish while a traversal is under way: each is reported once, as a not-found error naming the entry, and the walk ends
fn oracle_walk_vanish() -> bool {
    let mut r = Report::new("walk.vanish");
    for kind in ["memory", "altroot", "overlay"] {
        for nfiles in [1usize, 3] {
            r.case();
            let (root, _extra) = make_backend(kind);
            let names: Vec<String> = (0..=nfiles).map(|i| format!("f{}", i)).collect();
            for n in &names { root.join(n).unwrap().create_file().unwrap().write_all(b"x").unwrap(); }
            let res = catch_unwind(AssertUnwindSafe(|| {
                let mut w = root.walk_dir().unwrap();
                let first = match w.next() { Some(Ok(p)) => p.as_str().to_string(), other => return Some(format!("walk did not start: {:?}", other.map(|x| x.map(|p| p.as_str().to_string()).map_err(|e| e.to_string())))) };
                for n in &names { let _ = root.join(n).unwrap().remove_file(); }
                let mut errs: Vec<String> = vec![];
                for (i, e) in w.enumerate() {
                    if i > 20 { return Some("the walk does not end".to_string()); }
                    match e { Ok(p) => return Some(format!("a removed entry {:?} is yielded as present", p.as_str())),
                              Err(e) => { if !matches!(e.kind(), VfsErrorKind::FileNotFound) { return Some(format!("vanished entry reported as {:?}", e.kind())); } errs.push(e.path().clone()); } }
                }
                errs.sort();
                let mut want: Vec<String> = names.iter().map(|n| format!("/{}", n)).filter(|p| *p != first).collect(); want.sort();
                tr(&format!("{} {:?}", kind, errs.len()));
                if errs != want { return Some(format!("error items name {:?}, expected {:?}", errs, want)); }
                None
            }));
            let what = format!("backend={} files={}", kind, nfiles + 1);
            match res { Err(_) => r.fail(what, "panicked".into()), Ok(Some(d)) => r.fail(what, d), Ok(None) => {} }
        }
    }
    altroot_base_gone(&mut r);
    r.done()
}

/// the base directory of an AltrootFS is removed, or replaced by a file, through the underlying filesystem: every observer of the altroot's root
/// tells the same story (C05) and nothing panics
fn altroot_base_gone(r: &mut Report) {
    for replaced in [false, true] {
        r.case();
        let inner: VfsPath = MemoryFS::new().into();
        inner.join("base").unwrap().create_dir().unwrap();
        let alt: VfsPath = AltrootFS::new(inner.join("base").unwrap()).into();
        alt.join("f").unwrap().create_file().unwrap().write_all(b"x").unwrap();
        inner.join("base").unwrap().remove_dir_all().unwrap();
        if replaced { inner.join("base").unwrap().create_file().unwrap().write_all(b"now a file").unwrap(); }
        let res = catch_unwind(AssertUnwindSafe(|| {
            let (ex, isd, isf) = (alt.exists().ok(), alt.is_dir().ok(), alt.is_file().ok());
            let md = alt.metadata().ok().map(|m| m.file_type);
            let listable = alt.read_dir().is_ok();
            let walkable = alt.walk_dir().is_ok();
            tr(&format!("base gone {} {:?} {:?} {:?} {:?} {} {}", replaced, ex, isd, isf, md, listable, walkable));
            let is_dir_story = md == Some(VfsFileType::Directory);
            if isd != Some(is_dir_story) && isd.is_some() { return Some(format!("is_dir says {:?} but metadata says {:?}", isd, md)); }
            if listable != is_dir_story { return Some(format!("read_dir {} although metadata says {:?} (is_dir {:?})", if listable { "succeeds" } else { "fails" }, md, isd)); }
            if isd == Some(true) && !listable { return Some("is_dir is true for a root that cannot be listed".into()); }
            if ex == Some(false) && (isd == Some(true) || isf == Some(true)) { return Some(format!("exists is false but is_dir {:?} / is_file {:?}", isd, isf)); }
            if walkable && !listable { return Some("walk_dir starts on a root that cannot be listed".into()); }
            None
        }));
        let what = format!("altroot base directory {}", if replaced { "replaced by a file" } else { "removed" });
        match res { Err(_) => r.fail(what, "panicked".into()), Ok(Some(d)) => r.fail(what, d), Ok(None) => {} }
    }
}

// ------------------------------------------------------------------------------------------------ hostile directory content (C13, C05)
#[cfg(unix)]
fn oracle_hostile() -> bool {
    use std::os::unix::ffi::OsStrExt;
    let mut r = Report::new("hostile.physical");
    let dir = std::env::temp_dir().join(format!("vfs-oracle-hostile-{}", std::process::id()));
    for op in 0..14 {
        r.case();
        let _ = std::fs::remove_dir_all(&dir);
        std::fs::create_dir_all(dir.join("root/realdir")).unwrap();
        std::fs::write(dir.join("root/realdir/inner"), b"i").unwrap();
        std::fs::write(dir.join("root/plain"), b"p").unwrap();
        std::os::unix::fs::symlink(dir.join("root/no_such_target"), dir.join("root/dangling")).unwrap();
        std::os::unix::fs::symlink(dir.join("root/realdir"), dir.join("root/ldir")).unwrap();
        std::os::unix::fs::symlink(dir.join("root/plain"), dir.join("root/lfile")).unwrap();
        let bad = std::ffi::OsStr::from_bytes(b"bad\xffname");
        let have_bad = std::fs::write(dir.join("root").join(bad), b"b").is_ok();
        let root: VfsPath = vfs::PhysicalFS::new(dir.join("root")).into();
        let res = catch_unwind(AssertUnwindSafe(|| {
            let mut names: Vec<String> = match root.read_dir() { Ok(it) => it.map(|p| p.filename()).collect(), Err(e) => return Some(format!("read_dir(root) failed: {}", e)) };
            if names.len() != if have_bad { 6 } else { 5 } { return Some(format!("root lists {:?}", names)); }
            names.sort();
            tr(&names.join("|"));
            for n in &names {
                let q = match root.join(n) { Ok(q) => q, Err(_) => continue };
                // consistency (C05): an entry whose metadata can be read is a directory iff it can be listed
                tr_res(&format!("hostile {} exists {}", op, n), &q.exists());
                if let Ok(md) = q.metadata() {
                    let listable = q.read_dir().is_ok();
                    tr(&format!("{:?} {}", md.file_type, listable));
                    if (md.file_type == VfsFileType::Directory) != listable { return Some(format!("{:?}: metadata says {:?} but read_dir {}", n, md.file_type, if listable { "succeeds" } else { "fails" })); }
                    if q.is_dir().ok() != Some(listable) { return Some(format!("{:?}: is_dir disagrees with read_dir", n)); }
                }
                let dest = root.join("zz_dest").unwrap();
                match op {
                    0 => { let _ = q.exists(); let _ = q.is_file(); let _ = q.is_dir(); }
                    1 => { let _ = q.metadata(); }
                    2 => { let _ = q.read_dir().map(|it| it.count()); }
                    3 => { if let Ok(mut h) = q.open_file() { let mut b = vec![]; let _ = h.read_to_end(&mut b); } }
                    4 => { // every listed name is occupied (also by a dangling symlink): create_dir must classify it as file-exists / directory-exists (C12)
                           let res = q.create_dir(); tr(&format!("create_dir {:?}", res.as_ref().map_err(|e| kind_name(e))));
                           match res { _ if n.contains('\u{fffd}') => {}   // a lossily listed non-UTF-8 name is a different (free) name
                                       Err(e) if matches!(e.kind(), VfsErrorKind::FileExists | VfsErrorKind::DirectoryExists) => {}
                                       other => return Some(format!("create_dir on the occupied name {:?} answered {:?}", n, other.map_err(|e| e.to_string()))) } }
                    5 => { let _ = q.create_dir_all(); }
                    6 => { let _ = q.create_file().map(|mut h| h.write_all(b"w")); }
                    7 => { let _ = q.append_file().map(|mut h| h.write_all(b"w")); }
                    8 => { let _ = q.remove_file(); }
                    9 => { let _ = q.remove_dir(); }
                    10 => { let _ = q.remove_dir_all(); }
                    11 => { let _ = q.set_modification_time(std::time::SystemTime::UNIX_EPOCH); let _ = q.set_access_time(std::time::SystemTime::UNIX_EPOCH); let _ = q.set_creation_time(std::time::SystemTime::UNIX_EPOCH); }
                    12 => { let _ = q.copy_file(&dest); let _ = dest.remove_file(); let _ = q.move_file(&dest); }
                    _ => { let _ = q.copy_dir(&dest); let _ = q.read_to_string(); }
                }
            }
            if let Ok(w) = root.walk_dir() { for e in w { let _ = e; } }
            None
        }));
        let what = format!("operation #{} on every entry of a directory holding a dangling symlink, symlinks to a directory and to a file, and a non-UTF-8 name", op);
        match res { Err(_) => r.fail(what, "panicked".into()), Ok(Some(d)) => r.fail(what, d), Ok(None) => {} }
    }
    let _ = std::fs::remove_dir_all(&dir);
    r.done()
}
#[cfg(not(unix))]
fn oracle_hostile() -> bool { true }

// ------------------------------------------------------------------------------------------------ embedded view (C18)
#[derive(rust_embed::RustEmbed, Debug)]
#[folder = "embed"]
struct Emb;
/// EmbeddedFS over the fixture folder replay/embed against PhysicalFS on the same folder: every embedded file and implied directory, the root,
/// and for each of them an extension, a prefix, a sibling and a path below it: existence, type, length, bytes, listings, walk; every mutating
/// call is refused as not-supported and changes nothing
fn oracle_embedded() -> bool {
    let mut r = Report::new("embedded");
    let folder = std::path::Path::new(env!("CARGO_MANIFEST_DIR")).join("embed");
    let phys: VfsPath = vfs::PhysicalFS::new(&folder).into();
    let emb: VfsPath = vfs::EmbeddedFS::<Emb>::new().into();
    let mut universe: BTreeSet<String> = BTreeSet::new();
    universe.insert(String::new());
    for e in phys.walk_dir().unwrap() { universe.insert(e.unwrap().as_str().to_string()); }
    let base: Vec<String> = universe.iter().cloned().collect();
    for p in &base {
        universe.insert(format!("{}x", p)); universe.insert(format!("{}/below", p)); universe.insert(format!("{}/.", p).trim_end_matches("/.").to_string());
        if p.chars().count() > 1 { let mut q: Vec<char> = p.chars().collect(); q.pop(); let q: String = q.into_iter().collect(); if !q.ends_with('/') { universe.insert(q); } }
        if let Some(i) = p.rfind('/') { universe.insert(format!("{}/zz", &p[..i])); }
    }
    let snap = |root: &VfsPath| -> Vec<(String, bool, u64)> { let mut v: Vec<(String, bool, u64)> = root.walk_dir().unwrap().map(|e| { let e = e.unwrap(); let m = e.metadata().unwrap(); (e.as_str().to_string(), m.file_type == VfsFileType::Directory, m.len) }).collect(); v.sort(); v };
    let before = snap(&emb);
    if before != snap(&phys) { r.fail("walk_dir from the root".into(), format!("embedded {:?}, physical {:?}", before, snap(&phys))); }
    for p in &universe {
        r.case();
        let res = catch_unwind(AssertUnwindSafe(|| {
            let (qe, qp) = if p.is_empty() { (emb.clone(), phys.clone()) } else { (match emb.join(&p[1..]) { Ok(q) => q, Err(_) => return None }, phys.join(&p[1..]).unwrap()) };
            let (a, b) = (qe.exists().ok(), qp.exists().ok());
            tr(&format!("emb {} {:?}", p, a)); tr_res("emb md", &qe.metadata()); tr_res("emb ls", &qe.read_dir().map(|_| ())); tr_res("emb rd", &qe.read_to_string());
            if a != b { return Some(format!("exists: embedded {:?}, physical {:?}", a, b)); }
            let md = |q: &VfsPath| q.metadata().ok().map(|m| (m.file_type == VfsFileType::Directory, m.len));
            if md(&qe) != md(&qp) { return Some(format!("metadata: embedded {:?}, physical {:?}", md(&qe), md(&qp))); }
            if (qe.is_file().ok(), qe.is_dir().ok()) != (qp.is_file().ok(), qp.is_dir().ok()) { return Some("is_file / is_dir differ".to_string()); }
            let ls = |q: &VfsPath| q.read_dir().ok().map(|it| { let mut v: Vec<String> = it.map(|c| c.as_str().to_string()).collect(); v.sort(); v });
            let (le, lp) = (ls(&qe), if qp.is_dir().unwrap_or(false) { ls(&qp) } else { None });
            if le != lp { return Some(format!("read_dir: embedded {:?}, physical {:?}", le, lp)); }
            let rd = |q: &VfsPath| q.open_file().ok().and_then(|mut h| { let mut b = vec![]; h.read_to_end(&mut b).ok().map(|_| b) });
            let (be, bp) = (rd(&qe), if qp.is_file().unwrap_or(false) { rd(&qp) } else { None });
            if be != bp { return Some(format!("bytes: embedded {:?}, physical {:?}", be, bp)); }
            if qe.read_to_string().ok() != (if qp.is_file().unwrap_or(false) { qp.read_to_string().ok() } else { None }) { return Some("read_to_string differs".to_string()); }
            // mutating calls: refused as not-supported, nothing changes
            let t = std::time::SystemTime::UNIX_EPOCH;
            let outcomes: Vec<(&str, VfsResult<()>)> = vec![("create_dir", qe.create_dir()), ("create_file", qe.create_file().map(|_| ())), ("append_file", qe.append_file().map(|_| ())),
                ("remove_file", qe.remove_file()), ("remove_dir", qe.remove_dir()), ("set_creation_time", qe.set_creation_time(t)), ("set_modification_time", qe.set_modification_time(t)), ("set_access_time", qe.set_access_time(t))];
            // the path layer checks the parent of create_dir / create_file itself: below a missing or non-directory parent any refusal will do
            let parent_is_dir = p.is_empty() || qp.parent().is_dir().unwrap_or(false);
            for (name, o) in &outcomes { tr_res(name, o); }
            for (name, o) in outcomes { match o { Ok(()) => return Some(format!("{} succeeded on a read-only filesystem", name)),
                Err(e) => if !matches!(e.kind(), VfsErrorKind::NotSupported) && (parent_is_dir || !name.starts_with("create_")) { return Some(format!("{} failed with {:?}, expected NotSupported", name, e.kind())); } } }
            None
        }));
        match res { Err(_) => r.fail(format!("path {:?}", p), "panicked".into()), Ok(Some(d)) => r.fail(format!("path {:?}", p), d), Ok(None) => {} }
    }
    if snap(&emb) != before { r.fail("after all calls".into(), "the embedded tree changed".into()); }
    r.done()
}

fn main() {
    let args: Vec<String> = std::env::args().skip(1).collect();
    let deep = args.iter().any(|a| a == "--deep");
    let mut ok = true;
    std::panic::set_hook(Box::new(|_| {}));
    for a in args.iter().filter(|a| !a.starts_with("--")) {
        ok &= match a.as_str() {
            "paths" => oracle_paths(if deep { 6 } else { 5 }),
            "reader" => oracle_reader(if deep { 3 } else { 2 }),
            "writer" => oracle_writer(if deep { 4 } else { 3 }),
            "tree.memory" => oracle_tree("memory", if deep { 3 } else { 2 }, deep),
            "tree.altroot" => oracle_tree("altroot", if deep { 3 } else { 2 }, deep),
            "tree.overlay" => oracle_tree("overlay", 2, false),
            "tree.stack" => ["altroot.altroot", "altroot.overlay", "overlay.altroot", "overlay.nested", "overlay4"].iter().fold(true, |ok, k| oracle_tree(k, 2, deep) && ok),
            "tree.physical" => oracle_tree("physical", 2, false),
            "composite.physical" => oracle_tree("physical", 2, true),
            "composite.memory" => oracle_tree("memory", 2, true),
            "composite.altroot" => oracle_tree("altroot", 2, true),
            "overlay" => oracle_overlay(if deep { 2 } else { 1 }),
            "union.overlay" => oracle_union(if deep { 3 } else { 2 }),
            "transfer" => oracle_transfer(),
            "copydir" => oracle_copydir(),
            "faults" => oracle_faults(),
            "times" => oracle_times(),
            "embedded" => oracle_embedded(),
            "handles" => oracle_handles(),
            "direct.altroot" => oracle_direct_altroot(),
            "walk.vanish" => oracle_walk_vanish(),
            "hostile.physical" => oracle_hostile(),
            other => { println!("UNKNOWN {}", other); false }
        };
    }
    std::process::exit(if ok { 0 } else { 1 });
}
