//! Witness histories for the known findings and for the defects repaired by `fix:` commits, driven through the
//! public API of the real crate (vfs = { path = "/repo" }).  Prints one line per case:
//!   REPRODUCED <id>   the finding still shows on the current tree
//!   ABSENT <id>       the behaviour the finding describes is no longer observed (e.g. after a fix)
use std::io::{Read, Seek, SeekFrom, Write};
use vfs::{FileSystem, MemoryFS, OverlayFS, VfsError, VfsPath, VfsResult, SeekAndRead, SeekAndWrite, VfsMetadata};
use vfs::error::VfsErrorKind;

fn overlay_over(lower_setup: impl Fn(&VfsPath)) -> (VfsPath, VfsPath, VfsPath) {
    let upper: VfsPath = MemoryFS::new().into();
    let lower: VfsPath = MemoryFS::new().into();
    lower_setup(&lower);
    let ov: VfsPath = OverlayFS::new(&[upper.clone(), lower.clone()]).into();
    (ov, upper, lower)
}
fn say(id: &str, reproduced: bool) { println!("{} {}", if reproduced { "REPRODUCED" } else { "ABSENT" }, id); }

/// a backend whose `exists` always fails (for the error-relabelling and fault findings)
#[derive(Debug)]
struct FailingExists;
impl FileSystem for FailingExists {
    fn read_dir(&self, _p: &str) -> VfsResult<Box<dyn Iterator<Item = String> + Send>> { Err(VfsErrorKind::NotSupported.into()) }
    fn create_dir(&self, _p: &str) -> VfsResult<()> { Err(VfsErrorKind::NotSupported.into()) }
    fn open_file(&self, _p: &str) -> VfsResult<Box<dyn SeekAndRead + Send>> { Err(VfsErrorKind::NotSupported.into()) }
    fn create_file(&self, _p: &str) -> VfsResult<Box<dyn SeekAndWrite + Send>> { Err(VfsErrorKind::NotSupported.into()) }
    fn append_file(&self, _p: &str) -> VfsResult<Box<dyn SeekAndWrite + Send>> { Err(VfsErrorKind::NotSupported.into()) }
    fn metadata(&self, _p: &str) -> VfsResult<VfsMetadata> { Err(VfsErrorKind::NotSupported.into()) }
    fn exists(&self, _p: &str) -> VfsResult<bool> { Err(VfsErrorKind::Other("disk on fire".into()).into()) }
    fn remove_file(&self, _p: &str) -> VfsResult<()> { Err(VfsErrorKind::NotSupported.into()) }
    fn remove_dir(&self, _p: &str) -> VfsResult<()> { Err(VfsErrorKind::NotSupported.into()) }
}

#[derive(rust_embed::RustEmbed, Debug)]
#[folder = "embed"]
struct Emb;

fn main() {
    // ---------------- known findings (OverlayFS write side, C09 / C10 / C19)
    {
        let (ov, _u, _l) = overlay_over(|l| l.join("a").unwrap().create_dir().unwrap());
        say("overlay.create_dir.refuses_lower_only", ov.join("a").unwrap().create_dir().is_ok());
    }
    {
        let (ov, _u, _l) = overlay_over(|l| l.join("a").unwrap().create_dir().unwrap());
        say("overlay.create_file.refuses_lower_dir", ov.join("a").unwrap().create_file().is_ok());
    }
    {
        let (ov, _u, _l) = overlay_over(|l| l.join("d").unwrap().create_dir().unwrap());
        say("overlay.remove_file.requires_file", ov.join("d").unwrap().remove_file().is_ok());
    }
    {
        let (ov, _u, _l) = overlay_over(|l| { l.join("d").unwrap().create_dir().unwrap(); l.join("d/f").unwrap().create_file().unwrap(); });
        say("overlay.remove_dir.refuses_lower_children", ov.join("d").unwrap().remove_dir().is_ok());
    }
    {
        let (ov, _u, _l) = overlay_over(|l| { l.join("f").unwrap().create_file().unwrap(); });
        say("overlay.remove_dir.requires_directory", ov.join("f").unwrap().remove_dir().is_ok());
    }
    {
        let (ov, _u, _l) = overlay_over(|l| { l.join("a/b").unwrap().create_dir_all().unwrap(); l.join("a/b/f").unwrap().create_file().unwrap(); });
        let removed = ov.join("a/b").unwrap().remove_dir().is_ok();
        let gone = !ov.join("a/b").unwrap().exists().unwrap();
        let child_visible = ov.join("a/b/f").unwrap().exists().unwrap();
        say("overlay.remove_dir.hides_descendants", removed && gone && child_visible);
    }
    for (id, which) in [("overlay.set_creation_time.serves_lower", 0), ("overlay.set_modification_time.serves_lower", 1), ("overlay.set_access_time.serves_lower", 2)] {
        let (ov, _u, _l) = overlay_over(|l| { l.join("f").unwrap().create_file().unwrap(); });
        let p = ov.join("f").unwrap();
        let t = std::time::SystemTime::UNIX_EPOCH;
        let r = match which { 0 => p.set_creation_time(t), 1 => p.set_modification_time(t), _ => p.set_access_time(t) };
        let nf = matches!(r, Err(ref e) if matches!(e.kind(), VfsErrorKind::FileNotFound));
        say(id, p.exists().unwrap() && nf);
    }
    // ---------------- defects repaired by fix: commits (must be ABSENT on the repaired tree)
    {
        // reader: read after seek past the end panicked
        let root: VfsPath = MemoryFS::new().into();
        let f = root.join("f").unwrap();
        f.create_file().unwrap().write_all(b"ab").unwrap();
        let f2 = f.clone();
        let r = std::panic::catch_unwind(std::panic::AssertUnwindSafe(|| {
            let f = &f2;
            let mut h = f.open_file().unwrap();
            h.seek(SeekFrom::Start(5)).unwrap();
            let mut buf = [0u8; 4];
            h.read(&mut buf).unwrap()
        }));
        say("fixed.reader.read_past_end_panics", r.is_err());
        let mut h = f.open_file().unwrap();
        say("fixed.reader.seek_before_start_wraps", h.seek(SeekFrom::Current(-1)).is_ok());
    }
    {
        let root: VfsPath = MemoryFS::new().into();
        root.join("d/x").unwrap().create_dir_all().unwrap();
        let d = root.join("d").unwrap();
        say("fixed.memory.remove_file_on_directory", d.remove_file().is_ok());
        say("fixed.memory.create_file_over_directory", d.create_file().is_ok());
        say("fixed.memory.append_file_on_directory", d.append_file().is_ok());
        let f = root.join("f").unwrap();
        f.create_file().unwrap();
        say("fixed.memory.read_dir_on_file", f.read_dir().is_ok());
        say("fixed.memory.remove_dir_on_file", f.remove_dir().is_ok());
    }
    {
        let p: VfsPath = VfsPath::new(FailingExists).join("x").unwrap();
        let e: VfsError = p.exists().unwrap_err();
        say("fixed.path.exists_error_placeholder", e.path().as_str() != "/x");
    }
    {
        // overlay.exists: a failing lower layer made entries look absent
        let upper: VfsPath = MemoryFS::new().into();
        let lower: VfsPath = VfsPath::new(FailingExists);
        let ov: VfsPath = OverlayFS::new(&[upper, lower]).into();
        say("fixed.overlay.exists_swallows_errors", matches!(ov.join("x").unwrap().exists(), Ok(false)));
    }
    {
        let (ov, _u, _l) = overlay_over(|l| { l.join("f").unwrap().create_file().unwrap(); });
        ov.join("f").unwrap().remove_file().unwrap();
        let names: Vec<String> = ov.read_dir().unwrap().map(|p| p.filename()).collect();
        say("fixed.overlay.root_lists_whiteout", names.iter().any(|n| n == ".whiteout"));
    }
    {
        // overlay.read_dir ignored entry types: a file served by a lower layer was listed as an empty directory,
        // and a directory re-created over a lower-layer file could not be listed when the lower layer refuses read_dir on files
        let (ov, _u, _l) = overlay_over(|l| { l.join("f").unwrap().create_file().unwrap(); });
        say("fixed.overlay.read_dir_lists_a_file", ov.join("f").unwrap().read_dir().is_ok());
        let f = ov.join("f").unwrap();
        f.remove_file().unwrap();
        f.create_dir().unwrap();
        say("fixed.overlay.read_dir_dir_over_lower_file_fails", f.read_dir().is_err());
    }
    {
        let root: VfsPath = vfs::EmbeddedFS::<Emb>::new().into();
        let r = std::panic::catch_unwind(std::panic::AssertUnwindSafe(|| root.open_file().is_err()));
        say("fixed.embedded.open_file_root_panics", r.is_err());
    }
    #[cfg(unix)]
    {
        use std::os::unix::ffi::OsStrExt;
        let dir = std::env::temp_dir().join(format!("vfs-replay-{}", std::process::id()));
        let _ = std::fs::remove_dir_all(&dir);
        std::fs::create_dir_all(&dir).unwrap();
        // a dangling symlink where a directory is to be created
        std::os::unix::fs::symlink(dir.join("nowhere"), dir.join("dangling")).unwrap();
        let root: VfsPath = vfs::PhysicalFS::new(&dir).into();
        let r = std::panic::catch_unwind(std::panic::AssertUnwindSafe(|| root.join("dangling").unwrap().create_dir().is_err()));
        say("fixed.physical.create_dir_dangling_symlink_panics", r.is_err());
        // a directory entry whose name is not valid UTF-8
        let bad = std::ffi::OsStr::from_bytes(b"bad\xffname");
        std::fs::write(dir.join(bad), b"x").unwrap();
        let r = std::panic::catch_unwind(std::panic::AssertUnwindSafe(|| root.read_dir().map(|it| it.count())));
        say("fixed.physical.read_dir_non_utf8_name_panics", r.is_err());
        let _ = std::fs::remove_dir_all(&dir);
    }
}
