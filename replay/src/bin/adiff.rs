//! Bounded differential oracle for C15: the async port against the sync API, on the real crate (never counted as proved).
//!   adiff steps.<backend>   all sequences of 2 (deep: 3) operations on the sync and on the async backend side by side: every result class and
//!                           every observation (exists, metadata type/len, is_file/is_dir, listing, bytes, walk) must agree after every step
//!   adiff reader            read/seek scripts on a sync and an async read handle over the same bytes
//!   adiff schedule          walk_dir / read_dir streams over a filesystem whose every call returns Pending k times first (k = 0..3):
//!                           the yielded sequence is independent of k and equals the sync traversal as a set, directories before their contents
//! Operations whose input class is listed as a known C15 finding are reported by `adiff findings` (REPRODUCED / ABSENT) and filtered here.
use std::collections::BTreeSet;
use std::future::Future;
use std::io::{Read, Seek, SeekFrom, Write};
use std::panic::{catch_unwind, AssertUnwindSafe};
use std::pin::Pin;
use std::task::{Context, Poll};

use async_std::io::prelude::SeekExt;
use async_std::io::{ReadExt, WriteExt};
use futures::stream::{Stream, StreamExt};
use vfs::async_vfs::{AsyncAltrootFS, AsyncFileSystem, AsyncMemoryFS, AsyncOverlayFS, AsyncPhysicalFS, AsyncVfsPath};
use vfs::error::VfsErrorKind;
use vfs::{AltrootFS, MemoryFS, OverlayFS, PhysicalFS, VfsFileType, VfsMetadata, VfsPath, VfsResult};

// behaviour trace of the async side (see oracle.rs)
static TRACE: std::sync::Mutex<u64> = std::sync::Mutex::new(0xcbf29ce484222325);
fn tr(s: &str) { let mut h = TRACE.lock().unwrap_or_else(|e| e.into_inner()); for b in s.as_bytes() { *h ^= *b as u64; *h = h.wrapping_mul(0x100000001b3); } *h ^= 0xff; *h = h.wrapping_mul(0x100000001b3); }
struct Report { check: String, cases: u64, fail: Option<String> }
impl Report {
    fn new(c: &str) -> Self { Report { check: c.into(), cases: 0, fail: None } }
    fn case(&mut self) { self.cases += 1; }
    fn fail(&mut self, input: String, detail: String) { if self.fail.is_none() { self.fail = Some(format!("{} :: {}", input, detail)); } }
    fn done(self) -> bool {
        match self.fail { None => { println!("PASS {} cases={}", self.check, self.cases); println!("TRACE adiff:{} {:016x}", self.check, *TRACE.lock().unwrap_or_else(|e| e.into_inner())); true }
                          Some(f) => { println!("FAIL {} {}", self.check, f); false } }
    }
}
fn rt() -> tokio::runtime::Runtime { tokio::runtime::Builder::new_current_thread().build().unwrap() }

#[derive(Clone, Copy, PartialEq, Debug)]
enum EC { NotFound, FileExists, DirExists, NotSupported, Other }
fn class_of(e: &vfs::VfsError) -> EC { match e.kind() { VfsErrorKind::FileNotFound => EC::NotFound, VfsErrorKind::FileExists => EC::FileExists, VfsErrorKind::DirectoryExists => EC::DirExists, VfsErrorKind::NotSupported => EC::NotSupported, _ => EC::Other } }
fn outcome<T>(r: &VfsResult<T>) -> Result<(), EC> { match r { Ok(_) => Ok(()), Err(e) => Err(class_of(e)) } }

#[derive(Clone, Copy, Debug, PartialEq)]
enum Op { CreateDir, CreateFile, Append, RemoveFile, RemoveDir, CreateDirAll, RemoveDirAll, MoveTo, CopyTo, CopyDirTo, MoveDirTo }
const DEST: &str = "/mv";
const UNIVERSE: [&str; 11] = ["", "/a", "/ab", "/a/b", "/a/b/c", "/a/a", "/é", "/é/x", "/..h", "/mv", "/r"];

fn sync_apply(root: &VfsPath, op: Op, p: &str) -> VfsResult<()> {
    let q = root.join(&p[1..])?;
    let d = root.join(&DEST[1..])?;
    match op {
        Op::CreateDir => q.create_dir(),
        Op::CreateFile => { let mut h = q.create_file()?; h.write_all(b"new").unwrap(); Ok(()) }
        Op::Append => { let mut h = q.append_file()?; h.write_all(b"+").unwrap(); Ok(()) }
        Op::RemoveFile => q.remove_file(),
        Op::RemoveDir => q.remove_dir(),
        Op::CreateDirAll => q.create_dir_all(),
        Op::RemoveDirAll => q.remove_dir_all(),
        Op::MoveTo => q.move_file(&d),
        Op::CopyTo => q.copy_file(&d),
        Op::CopyDirTo => q.copy_dir(&d).map(|_| ()),
        Op::MoveDirTo => q.move_dir(&d),
    }
}
async fn async_apply(root: &AsyncVfsPath, op: Op, p: &str) -> VfsResult<()> {
    let q = root.join(&p[1..])?;
    let d = root.join(&DEST[1..])?;
    match op {
        Op::CreateDir => q.create_dir().await,
        Op::CreateFile => { let mut h = q.create_file().await?; h.write_all(b"new").await.unwrap(); Ok(()) }
        Op::Append => { let mut h = q.append_file().await?; h.write_all(b"+").await.unwrap(); Ok(()) }
        Op::RemoveFile => q.remove_file().await,
        Op::RemoveDir => q.remove_dir().await,
        Op::CreateDirAll => q.create_dir_all().await,
        Op::RemoveDirAll => q.remove_dir_all().await,
        Op::MoveTo => q.move_file(&d).await,
        Op::CopyTo => q.copy_file(&d).await,
        Op::CopyDirTo => q.copy_dir(&d).await.map(|_| ()),
        Op::MoveDirTo => q.move_dir(&d).await,
    }
}
/// one observation of a path, in a form both worlds can produce
#[derive(PartialEq, Debug)]
struct Obs { exists: Result<bool, EC>, meta: Result<(bool, u64), EC>, is_file: Result<bool, EC>, is_dir: Result<bool, EC>, list: Result<Vec<String>, EC>, bytes: Result<Vec<u8>, EC>, text: Result<String, EC> }
fn md(m: VfsResult<VfsMetadata>) -> Result<(bool, u64), EC> { m.map(|m| (m.file_type == VfsFileType::Directory, m.len)).map_err(|e| class_of(&e)) }
fn sync_obs(root: &VfsPath, p: &str) -> Obs {
    let q = if p.is_empty() { root.clone() } else { root.join(&p[1..]).unwrap() };
    Obs { exists: q.exists().map_err(|e| class_of(&e)), meta: md(q.metadata()), is_file: q.is_file().map_err(|e| class_of(&e)), is_dir: q.is_dir().map_err(|e| class_of(&e)),
          list: q.read_dir().map(|it| { let mut v: Vec<String> = it.map(|c| c.as_str().to_string()).collect(); v.sort(); v }).map_err(|e| class_of(&e)),
          bytes: q.open_file().map_err(|e| class_of(&e)).and_then(|mut h| { let mut b = vec![]; h.read_to_end(&mut b).map(|_| b).map_err(|_| EC::Other) }),
          text: q.read_to_string().map_err(|e| class_of(&e)) }
}
async fn async_obs(root: &AsyncVfsPath, p: &str) -> Obs {
    let q = if p.is_empty() { root.clone() } else { root.join(&p[1..]).unwrap() };
    let list = match q.read_dir().await { Ok(s) => { let mut v: Vec<String> = s.map(|c| c.as_str().to_string()).collect().await; v.sort(); Ok(v) } Err(e) => Err(class_of(&e)) };
    let bytes = match q.open_file().await { Ok(mut h) => { let mut b = vec![]; h.read_to_end(&mut b).await.map(|_| b).map_err(|_| EC::Other) } Err(e) => Err(class_of(&e)) };
    Obs { exists: q.exists().await.map_err(|e| class_of(&e)), meta: md(q.metadata().await), is_file: q.is_file().await.map_err(|e| class_of(&e)), is_dir: q.is_dir().await.map_err(|e| class_of(&e)),
          list, bytes, text: q.read_to_string().await.map_err(|e| class_of(&e)) }
}
fn sync_walk(root: &VfsPath) -> Result<Vec<String>, EC> { root.walk_dir().map_err(|e| class_of(&e)).and_then(|w| w.map(|e| e.map(|p| p.as_str().to_string()).map_err(|e| class_of(&e))).collect()) }
async fn async_walk(root: &AsyncVfsPath) -> Result<Vec<String>, EC> {
    match root.walk_dir().await { Err(e) => Err(class_of(&e)), Ok(mut w) => { let mut out = vec![]; while let Some(e) = w.next().await { match e { Ok(p) => out.push(p.as_str().to_string()), Err(e) => return Err(class_of(&e)) } } Ok(out) } }
}
fn dirs_first(v: &[String]) -> bool { v.iter().enumerate().all(|(i, p)| match p.rfind('/') { Some(0) | None => true, Some(k) => v[..i].iter().any(|q| q == &p[..k]) }) }

struct Pair { s: VfsPath, a: AsyncVfsPath, _guard: Option<Cleanup> }
struct Cleanup(std::path::PathBuf);
impl Drop for Cleanup { fn drop(&mut self) { let _ = std::fs::remove_dir_all(&self.0); } }
fn make_pair(kind: &str) -> Pair {
    match kind {
        "memory" => Pair { s: MemoryFS::new().into(), a: AsyncMemoryFS::new().into(), _guard: None },
        "altroot" => {
            let si: VfsPath = MemoryFS::new().into(); si.join("r").unwrap().create_dir().unwrap();
            let ai: AsyncVfsPath = AsyncMemoryFS::new().into(); rt().block_on(ai.join("r").unwrap().create_dir()).unwrap();
            Pair { s: AltrootFS::new(si.join("r").unwrap()).into(), a: AsyncAltrootFS::new(ai.join("r").unwrap()).into(), _guard: None }
        }
        "overlay" => {
            // upper empty; lower holds a file, a directory with a file (all below names of the universe)
            let (su, sl): (VfsPath, VfsPath) = (MemoryFS::new().into(), MemoryFS::new().into());
            let (au, al): (AsyncVfsPath, AsyncVfsPath) = (AsyncMemoryFS::new().into(), AsyncMemoryFS::new().into());
            sl.join("a").unwrap().create_dir().unwrap(); sl.join("a/b").unwrap().create_file().unwrap().write_all(b"low").unwrap(); sl.join("ab").unwrap().create_file().unwrap().write_all(b"ab").unwrap();
            rt().block_on(async { al.join("a").unwrap().create_dir().await.unwrap(); al.join("a/b").unwrap().create_file().await.unwrap().write_all(b"low").await.unwrap(); al.join("ab").unwrap().create_file().await.unwrap().write_all(b"ab").await.unwrap(); });
            Pair { s: OverlayFS::new(&[su, sl]).into(), a: AsyncOverlayFS::new(&[au, al]).into(), _guard: None }
        }
        "physical" => {
            use std::sync::atomic::{AtomicU64, Ordering};
            static N: AtomicU64 = AtomicU64::new(0);
            let dir = std::env::temp_dir().join(format!("vfs-adiff-{}-{}", std::process::id(), N.fetch_add(1, Ordering::SeqCst)));
            let _ = std::fs::remove_dir_all(&dir);
            std::fs::create_dir_all(dir.join("s")).unwrap(); std::fs::create_dir_all(dir.join("a")).unwrap();
            Pair { s: PhysicalFS::new(dir.join("s")).into(), a: AsyncPhysicalFS::new(dir.join("a")).into(), _guard: Some(Cleanup(dir)) }
        }
        _ => panic!("unknown backend"),
    }
}

/// input classes of the known C15 findings (known_findings.json); sequences that enter one are not generated
fn excluded(kind: &str, op: Op, p: &str, model_is_dir: Option<bool>) -> bool {
    let _ = (kind, op, p, model_is_dir);
    false
}

fn oracle_steps(kind: &str, depth: usize) -> bool {
    let mut r = Report::new(&format!("steps.{}", kind));
    let ops = [Op::CreateDir, Op::CreateFile, Op::Append, Op::RemoveFile, Op::RemoveDir, Op::CreateDirAll, Op::RemoveDirAll, Op::MoveTo, Op::CopyTo, Op::CopyDirTo, Op::MoveDirTo];
    let steps: Vec<(Op, &str)> = ops.iter().flat_map(|o| UNIVERSE[1..].iter().map(move |p| (*o, *p))).collect();
    let mut seqs: Vec<Vec<(Op, &str)>> = vec![vec![]];
    for _ in 0..depth { let mut n = vec![]; for s in &seqs { for st in &steps { let mut t = s.clone(); t.push(*st); n.push(t); } } seqs = n; }
    let rt = rt();
    for populated in [false, true] {
        'seq: for seq in &seqs {
            // copy_dir / move_dir into the source's own subtree do not terminate (documented); not generated
            for (op, p) in seq { if matches!(op, Op::CopyDirTo | Op::MoveDirTo) && (DEST.starts_with(&format!("{}/", p)) || *p == DEST) { continue 'seq; } }
            r.case();
            let pair = make_pair(kind);
            let res = catch_unwind(AssertUnwindSafe(|| rt.block_on(async {
                if populated && kind != "overlay" {
                    for (p, c) in [("/a", None), ("/a/b", Some(&b"low"[..])), ("/ab", Some(&b"ab"[..])), ("/é", None)] {
                        let (qs, qa) = (pair.s.join(&p[1..]).unwrap(), pair.a.join(&p[1..]).unwrap());
                        match c { None => { qs.create_dir().unwrap(); qa.create_dir().await.unwrap(); } Some(b) => { qs.create_file().unwrap().write_all(b).unwrap(); qa.create_file().await.unwrap().write_all(b).await.unwrap(); } }
                    }
                }
                for (i, (op, p)) in seq.iter().enumerate() {
                    if excluded(kind, *op, p, sync_obs(&pair.s, p).meta.ok().map(|m| m.0)) { return None; }
                    let rs = sync_apply(&pair.s, *op, p);
                    let ra = async_apply(&pair.a, *op, p).await;
                    tr(&format!("{:?} {} {:?} {:?}", op, p, outcome(&ra), ra.as_ref().err().map(|e| e.path().clone())));
                    let (os, oa) = (outcome(&rs), outcome(&ra));
                    // outcomes: success / failure must agree; the classes the properties name (not-found, exists) must agree too
                    let named = |c: &Result<(), EC>| matches!(c, Err(EC::NotFound) | Err(EC::FileExists) | Err(EC::DirExists) | Err(EC::NotSupported));
                    if os.is_ok() != oa.is_ok() || ((named(&os) || named(&oa)) && os != oa) { return Some(format!("step {} {:?}({:?}): sync {:?}, async {:?}", i, op, p, rs.map_err(|e| e.to_string()), ra.map_err(|e| e.to_string()))); }
                    for u in UNIVERSE.iter() {
                        let (a, b) = (sync_obs(&pair.s, u), async_obs(&pair.a, u).await);
                        tr(&format!("{} {:?}", u, b));
                        if a != b { return Some(format!("after step {} {:?}({:?}): observations of {:?} differ: sync {:?}, async {:?}", i, op, p, u, a, b)); }
                    }
                    let (ws, wa) = (sync_walk(&pair.s), async_walk(&pair.a).await);
                    tr(&format!("{:?}", wa.as_ref().map(|v| { let mut w = v.clone(); w.sort(); w })));
                    match (&ws, &wa) {
                        (Ok(x), Ok(y)) => { let (sx, sy): (BTreeSet<&String>, BTreeSet<&String>) = (x.iter().collect(), y.iter().collect());
                            if sx != sy || x.len() != y.len() { return Some(format!("after step {} {:?}({:?}): walk_dir differs: sync {:?}, async {:?}", i, op, p, x, y)); }
                            if !dirs_first(y) { return Some(format!("after step {}: async walk_dir yields a child before its directory: {:?}", i, y)); } }
                        (Err(_), Err(_)) => {}
                        _ => return Some(format!("after step {} {:?}({:?}): walk_dir differs: sync {:?}, async {:?}", i, op, p, ws, wa)),
                    }
                }
                None
            })));
            let what = format!("backend={} populated={} {:?}", kind, populated, seq);
            match res { Err(_) => r.fail(what, "panicked".into()), Ok(Some(d)) => r.fail(what, d), Ok(None) => {} }
        }
    }
    r.done()
}

#[derive(Clone, Debug)]
enum ROp { Read(usize), Seek(SeekFrom) }
fn oracle_reader(depth: usize) -> bool {
    let mut r = Report::new("reader");
    let ops: Vec<ROp> = vec![ROp::Read(0), ROp::Read(1), ROp::Read(2), ROp::Read(5), ROp::Seek(SeekFrom::Start(0)), ROp::Seek(SeekFrom::Start(1)), ROp::Seek(SeekFrom::Start(3)), ROp::Seek(SeekFrom::Start(5)),
        ROp::Seek(SeekFrom::Current(-1)), ROp::Seek(SeekFrom::Current(0)), ROp::Seek(SeekFrom::Current(2)), ROp::Seek(SeekFrom::End(-1)), ROp::Seek(SeekFrom::End(0)), ROp::Seek(SeekFrom::End(1)), ROp::Seek(SeekFrom::End(-5))];
    let mut scripts: Vec<Vec<ROp>> = vec![vec![]];
    for _ in 0..depth { let mut n = vec![]; for s in &scripts { for o in &ops { let mut t = s.clone(); t.push(o.clone()); n.push(t); } } scripts = n; }
    let rt = rt();
    for content in [&b""[..], &b"a"[..], &b"abc"[..]] {
        for script in &scripts {
            r.case();
            let pair = make_pair("memory");
            let res = catch_unwind(AssertUnwindSafe(|| rt.block_on(async {
                let (fs_, fa) = (pair.s.join("f").unwrap(), pair.a.join("f").unwrap());
                fs_.create_file().unwrap().write_all(content).unwrap(); fa.create_file().await.unwrap().write_all(content).await.unwrap();
                let (mut hs, mut ha) = (fs_.open_file().unwrap(), fa.open_file().await.unwrap());
                for (i, op) in script.iter().enumerate() {
                    match op {
                        ROp::Read(n) => { let (mut bs, mut ba) = (vec![0u8; *n], vec![0u8; *n]); let (x, y) = (hs.read(&mut bs).ok(), ha.read(&mut ba).await.ok()); tr(&format!("r {} {:?} {:?}", n, y, ba));
                            if x != y || (x.is_some() && bs[..x.unwrap()] != ba[..y.unwrap()]) { return Some(format!("step {} {:?}: sync {:?} {:?}, async {:?} {:?}", i, op, x, bs, y, ba)); } }
                        ROp::Seek(s) => { let (x, y) = (hs.seek(*s).ok(), ha.seek(*s).await.ok()); tr(&format!("s {:?} {:?}", s, y)); if x != y { return Some(format!("step {} {:?}: sync {:?}, async {:?}", i, op, x, y)); } }
                    }
                }
                // where the cursors stand after the script
                let (x, y) = (hs.seek(SeekFrom::Current(0)).ok(), ha.seek(SeekFrom::Current(0)).await.ok()); tr(&format!("end {:?}", y));
                if x != y { return Some(format!("after the script the cursor stands at: sync {:?}, async {:?}", x, y)); }
                None
            })));
            let what = format!("content={:?} script={:?}", content, script);
            match res { Err(_) => r.fail(what, "panicked".into()), Ok(Some(d)) => r.fail(what, d), Ok(None) => {} }
        }
    }
    r.done()
}

// ---- a filesystem whose every call (and every stream item) is Pending k times before it proceeds
struct YieldK(usize);
impl Future for YieldK { type Output = (); fn poll(mut self: Pin<&mut Self>, cx: &mut Context<'_>) -> Poll<()> { if self.0 == 0 { Poll::Ready(()) } else { self.0 -= 1; cx.waker().wake_by_ref(); Poll::Pending } } }
struct SlowStream { inner: Box<dyn Unpin + Stream<Item = String> + Send>, k: usize, left: usize }
impl Stream for SlowStream { type Item = String; fn poll_next(self: Pin<&mut Self>, cx: &mut Context<'_>) -> Poll<Option<String>> { let this = self.get_mut(); if this.left > 0 { this.left -= 1; cx.waker().wake_by_ref(); return Poll::Pending; } this.left = this.k; this.inner.poll_next_unpin(cx) } }
#[derive(Debug)]
struct SlowFS { inner: AsyncMemoryFS }
impl SlowFS { fn k(&self) -> usize { KNOB.load(std::sync::atomic::Ordering::SeqCst) } }
#[async_trait::async_trait]
impl AsyncFileSystem for SlowFS {
    async fn read_dir(&self, path: &str) -> VfsResult<Box<dyn Unpin + Stream<Item = String> + Send>> { YieldK(self.k()).await; let s = self.inner.read_dir(path).await?; Ok(Box::new(SlowStream { inner: s, k: self.k(), left: self.k() })) }
    async fn create_dir(&self, path: &str) -> VfsResult<()> { YieldK(self.k()).await; self.inner.create_dir(path).await }
    async fn open_file(&self, path: &str) -> VfsResult<Box<dyn vfs::async_vfs::SeekAndRead + Send + Unpin>> { YieldK(self.k()).await; self.inner.open_file(path).await }
    async fn create_file(&self, path: &str) -> VfsResult<Box<dyn async_std::io::Write + Send + Unpin>> { YieldK(self.k()).await; self.inner.create_file(path).await }
    async fn append_file(&self, path: &str) -> VfsResult<Box<dyn async_std::io::Write + Send + Unpin>> { YieldK(self.k()).await; self.inner.append_file(path).await }
    async fn metadata(&self, path: &str) -> VfsResult<VfsMetadata> { YieldK(self.k()).await; self.inner.metadata(path).await }
    async fn exists(&self, path: &str) -> VfsResult<bool> { YieldK(self.k()).await; self.inner.exists(path).await }
    async fn remove_file(&self, path: &str) -> VfsResult<()> { YieldK(self.k()).await; self.inner.remove_file(path).await }
    async fn remove_dir(&self, path: &str) -> VfsResult<()> { YieldK(self.k()).await; self.inner.remove_dir(path).await }
}
fn oracle_schedule() -> bool {
    let mut r = Report::new("schedule");
    let rt = rt();
    let trees: Vec<Vec<(&str, Option<&[u8]>)>> = vec![
        vec![],
        vec![("a", None), ("a/f", Some(b"1")), ("b", Some(b"2"))],
        vec![("a", None), ("a/b", None), ("a/b/c", None), ("a/b/c/f", Some(b"x")), ("a/e", None), ("z", None), ("é", None), ("é/g", Some(b"y")), ("ab", Some(b"ab"))],
        vec![("d1", None), ("d2", None), ("d3", None), ("d1/x", None), ("d2/x", None), ("d3/x", None), ("d1/x/y", Some(b"")), ("d3/x/y", None)],
    ];
    for (ti, tree) in trees.iter().enumerate() {
        r.case();
        let res = catch_unwind(AssertUnwindSafe(|| rt.block_on(async {
            let sroot: VfsPath = MemoryFS::new().into();
            set_k(0);
            let fs = SlowFS { inner: AsyncMemoryFS::new() };
            let aroot: AsyncVfsPath = fs.into();
            for (p, c) in tree { let (qs, qa) = (sroot.join(p).unwrap(), aroot.join(p).unwrap());
                match c { None => { qs.create_dir().unwrap(); qa.create_dir().await.unwrap(); } Some(b) => { qs.create_file().unwrap().write_all(b).unwrap(); qa.create_file().await.unwrap().write_all(b).await.unwrap(); } } }
            let want = sync_walk(&sroot).unwrap();
            set_k(0);
            let base = async_walk(&aroot).await;
            for k in 0..4usize {
                // the knob lives inside the filesystem object the path already points to
                set_k(k);
                let got = async_walk(&aroot).await;
                tr(&format!("k{} {:?}", k, got.as_ref().map(|v| { let mut w = v.clone(); w.sort(); w })));
                if got != base { return Some(format!("k={}: walk_dir yields {:?}, with k=0 it yields {:?}", k, got, base)); }
                let got = got.unwrap();
                let (sx, sy): (BTreeSet<&String>, BTreeSet<&String>) = (want.iter().collect(), got.iter().collect());
                if sx != sy || want.len() != got.len() { return Some(format!("k={}: async walk_dir {:?} differs from the sync traversal {:?}", k, got, want)); }
                if !dirs_first(&got) { return Some(format!("k={}: a child is yielded before its directory: {:?}", k, got)); }
                for (p, c) in tree { if c.is_none() {
                    let mut l: Vec<String> = aroot.join(p).unwrap().read_dir().await.unwrap().map(|c| c.as_str().to_string()).collect().await; l.sort();
                    let mut w: Vec<String> = sroot.join(p).unwrap().read_dir().unwrap().map(|c| c.as_str().to_string()).collect(); w.sort();
                    if l != w { return Some(format!("k={}: read_dir({:?}) = {:?}, sync {:?}", k, p, l, w)); }
                } }
            }
            None
        })));
        let what = format!("tree #{}", ti);
        match res { Err(_) => r.fail(what, "panicked".into()), Ok(Some(d)) => r.fail(what, d), Ok(None) => {} }
    }
    // entries that disappear while the traversal is under way: every remaining entry of the listing fails its metadata lookup, possibly after
    // the lookup future has been Pending; the sync iterator yields one error per entry and then ends, and so must the stream, for every k
    for k in 0..4usize {
        for nfiles in [1usize, 3] {
            r.case();
            let res = catch_unwind(AssertUnwindSafe(|| rt.block_on(async {
                let sroot: VfsPath = MemoryFS::new().into();
                set_k(0);
                let aroot: AsyncVfsPath = SlowFS { inner: AsyncMemoryFS::new() }.into();
                for i in 0..=nfiles { let n = format!("f{}", i); sroot.join(&n).unwrap().create_file().unwrap(); aroot.join(&n).unwrap().create_file().await.unwrap(); }
                // sync reference: first item, then everything is removed
                let mut sw = sroot.walk_dir().unwrap();
                let first = sw.next();
                if !matches!(first, Some(Ok(_))) { return Some("sync walk did not start".to_string()); }
                for i in 0..=nfiles { let _ = sroot.join(&format!("f{}", i)).unwrap().remove_file(); }
                let sync_rest: Vec<bool> = sw.take(50).map(|e| e.is_ok()).collect();
                set_k(k);
                let mut aw = aroot.walk_dir().await.unwrap();
                let first = aw.next().await;
                if !matches!(first, Some(Ok(_))) { return Some("async walk did not start".to_string()); }
                set_k(0);
                for i in 0..=nfiles { let _ = aroot.join(&format!("f{}", i)).unwrap().remove_file().await; }
                set_k(k);
                let mut async_rest: Vec<bool> = vec![];
                while let Some(e) = aw.next().await { async_rest.push(e.is_ok()); if async_rest.len() >= 50 { break; } }
                let (se, ae) = (sync_rest.iter().filter(|b| !**b).count(), async_rest.iter().filter(|b| !**b).count());
                tr(&format!("vanish {} {} {}", k, async_rest.len(), ae));
                if sync_rest.len() != async_rest.len() || se != ae { return Some(format!("after the entries were removed the sync walk yields {} more items ({} errors), the async stream {} ({} errors)", sync_rest.len(), se, async_rest.len(), ae)); }
                None
            })));
            let what = format!("entries removed during the walk, {} files, k={}", nfiles + 1, k);
            match res { Err(_) => r.fail(what, "panicked".into()), Ok(Some(d)) => r.fail(what, d), Ok(None) => {} }
        }
    }
    r.done()
}
// the delay knob is reached through a process-wide cell (the path type owns the filesystem object)
static KNOB: std::sync::atomic::AtomicUsize = std::sync::atomic::AtomicUsize::new(0);
fn set_k(k: usize) { KNOB.store(k, std::sync::atomic::Ordering::SeqCst); }

// ---- a destination filesystem that refuses to create one particular file (both worlds): a directory transfer that fails part-way
#[derive(Debug)]
struct RefuseS { inner: MemoryFS, bad: &'static str }
impl vfs::FileSystem for RefuseS {
    fn read_dir(&self, path: &str) -> VfsResult<Box<dyn Iterator<Item = String> + Send>> { self.inner.read_dir(path) }
    fn create_dir(&self, path: &str) -> VfsResult<()> { self.inner.create_dir(path) }
    fn open_file(&self, path: &str) -> VfsResult<Box<dyn vfs::SeekAndRead + Send>> { self.inner.open_file(path) }
    fn create_file(&self, path: &str) -> VfsResult<Box<dyn vfs::SeekAndWrite + Send>> { if path == self.bad { Err(VfsErrorKind::Other("refused".into()).into()) } else { self.inner.create_file(path) } }
    fn append_file(&self, path: &str) -> VfsResult<Box<dyn vfs::SeekAndWrite + Send>> { self.inner.append_file(path) }
    fn metadata(&self, path: &str) -> VfsResult<VfsMetadata> { self.inner.metadata(path) }
    fn exists(&self, path: &str) -> VfsResult<bool> { self.inner.exists(path) }
    fn remove_file(&self, path: &str) -> VfsResult<()> { self.inner.remove_file(path) }
    fn remove_dir(&self, path: &str) -> VfsResult<()> { self.inner.remove_dir(path) }
}
#[derive(Debug)]
struct RefuseA { inner: AsyncMemoryFS, bad: &'static str }
#[async_trait::async_trait]
impl AsyncFileSystem for RefuseA {
    async fn read_dir(&self, path: &str) -> VfsResult<Box<dyn Unpin + Stream<Item = String> + Send>> { self.inner.read_dir(path).await }
    async fn create_dir(&self, path: &str) -> VfsResult<()> { self.inner.create_dir(path).await }
    async fn open_file(&self, path: &str) -> VfsResult<Box<dyn vfs::async_vfs::SeekAndRead + Send + Unpin>> { self.inner.open_file(path).await }
    async fn create_file(&self, path: &str) -> VfsResult<Box<dyn async_std::io::Write + Send + Unpin>> { if path == self.bad { Err(VfsErrorKind::Other("refused".into()).into()) } else { self.inner.create_file(path).await } }
    async fn append_file(&self, path: &str) -> VfsResult<Box<dyn async_std::io::Write + Send + Unpin>> { self.inner.append_file(path).await }
    async fn metadata(&self, path: &str) -> VfsResult<VfsMetadata> { self.inner.metadata(path).await }
    async fn exists(&self, path: &str) -> VfsResult<bool> { self.inner.exists(path).await }
    async fn remove_file(&self, path: &str) -> VfsResult<()> { self.inner.remove_file(path).await }
    async fn remove_dir(&self, path: &str) -> VfsResult<()> { self.inner.remove_dir(path).await }
}
/// copy_dir / move_dir of a small tree into a destination that refuses one file: the same outcome class and, afterwards, the same source and
/// destination trees in both worlds (a transfer that fails part-way must fail the same way)
fn transfer_dir_partial(r: &mut Report, rt: &tokio::runtime::Runtime) {
    for mv in [false, true] {
        // the walk hands out a whole listing before it descends: a file below `sub` is reached after every file of the top level, whatever the
        // (unspecified) listing order - so the failure point is the same in both worlds up to the order inside `sub`
        for bad in ["/out/sub/z", "/none"] {
            r.case();
            let (ss, sa): (VfsPath, AsyncVfsPath) = (MemoryFS::new().into(), AsyncMemoryFS::new().into());
            let (ds, da): (VfsPath, AsyncVfsPath) = (VfsPath::new(RefuseS { inner: MemoryFS::new(), bad }), AsyncVfsPath::new(RefuseA { inner: AsyncMemoryFS::new(), bad }));
            let res = catch_unwind(AssertUnwindSafe(|| rt.block_on(async {
                for (p, c) in [("src", None), ("src/a0", Some("0")), ("src/a1", Some("1")), ("src/sub", None), ("src/sub/y", Some("y")), ("src/sub/z", Some("z")), ("src/zz", Some("zz"))] {
                    match c { None => { ss.join(p).unwrap().create_dir().unwrap(); sa.join(p).unwrap().create_dir().await.unwrap(); }
                              Some(b) => { ss.join(p).unwrap().create_file().unwrap().write_all(b.as_bytes()).unwrap(); sa.join(p).unwrap().create_file().await.unwrap().write_all(b.as_bytes()).await.unwrap(); } }
                }
                let (rs, ra) = if mv { (ss.join("src").unwrap().move_dir(&ds.join("out").unwrap()).map(|_| 0), sa.join("src").unwrap().move_dir(&da.join("out").unwrap()).await.map(|_| 0)) }
                               else { (ss.join("src").unwrap().copy_dir(&ds.join("out").unwrap()), sa.join("src").unwrap().copy_dir(&da.join("out").unwrap()).await) };
                tr(&format!("dir {} {} {:?}", mv, bad, ra.as_ref().map_err(|e| class_of(e))));
                if rs.as_ref().map_err(|e| class_of(e)) != ra.as_ref().map_err(|e| class_of(e)) { return Some(format!("sync {:?}, async {:?}", rs.map_err(|e| e.to_string()), ra.map_err(|e| e.to_string()))); }
                let failed = ra.is_err();
                for (fs_s, fs_a, which) in [(&ss, &sa, "source"), (&ds, &da, "destination")] {
                    let (ws, wa) = (sync_walk(fs_s), async_walk(fs_a).await);
                    // after a failure inside `sub` the destination differs by the (order dependent) sibling that was or was not copied yet
                    let keep = |v: Vec<String>| -> Vec<String> { let mut v: Vec<String> = v.into_iter().filter(|p| !(failed && which == "destination" && p.starts_with("/out/sub/"))).collect(); v.sort(); v };
                    let (ws2, wa2) = (keep(ws.clone().unwrap_or_default()), keep(wa.clone().unwrap_or_default()));
                    tr(&format!("{:?}", wa2));
                    if ws.is_ok() != wa.is_ok() || ws2 != wa2 { return Some(format!("{} tree afterwards: sync {:?}, async {:?}", which, ws2, wa2)); }
                }
                None
            })));
            let what = format!("directory transfer move={} refused={}", mv, bad);
            match res { Err(_) => r.fail(what, "panicked".into()), Ok(Some(d)) => r.fail(what, d), Ok(None) => {} }
        }
    }
}

/// copy_file / move_file between two filesystem instances (memory, altroot over memory, physical as the source): async against sync
fn oracle_transfer() -> bool {
    let mut r = Report::new("transfer");
    let rt = rt();
    for src_kind in ["memory", "altroot", "physical"] {
        for mv in [false, true] {
            for dest_exists in [false, true] {
                r.case();
                let (ps, pd) = (make_pair(src_kind), make_pair("memory"));
                let res = catch_unwind(AssertUnwindSafe(|| rt.block_on(async {
                    let (ss, sa) = (ps.s.join("s.bin").unwrap(), ps.a.join("s.bin").unwrap());
                    ss.create_file().unwrap().write_all(b"payload").unwrap(); sa.create_file().await.unwrap().write_all(b"payload").await.unwrap();
                    let (ds, da) = (pd.s.join("t.bin").unwrap(), pd.a.join("t.bin").unwrap());
                    if dest_exists { ds.create_file().unwrap().write_all(b"old").unwrap(); da.create_file().await.unwrap().write_all(b"old").await.unwrap(); }
                    let (rs, ra) = if mv { (ss.move_file(&ds), sa.move_file(&da).await) } else { (ss.copy_file(&ds), sa.copy_file(&da).await) };
                    tr(&format!("{} {} {} {:?}", src_kind, mv, dest_exists, outcome(&ra)));
                    if outcome(&rs).is_ok() != outcome(&ra).is_ok() { return Some(format!("sync {:?}, async {:?}", rs.map_err(|e| e.to_string()), ra.map_err(|e| e.to_string()))); }
                    for (fs_s, fs_a, which) in [(&ps.s, &ps.a, "source"), (&pd.s, &pd.a, "destination")] {
                        for u in ["", "/s.bin", "/t.bin"] { let (a, b) = (sync_obs(fs_s, u), async_obs(fs_a, u).await); tr(&format!("{:?}", b)); if a != b { return Some(format!("{} filesystem, {:?}: sync {:?}, async {:?}", which, u, a, b)); } }
                    }
                    None
                })));
                let what = format!("source={} move={} dest_exists={}", src_kind, mv, dest_exists);
                match res { Err(_) => r.fail(what, "panicked".into()), Ok(Some(d)) => r.fail(what, d), Ok(None) => {} }
            }
        }
    }
    transfer_dir_partial(&mut r, &rt);
    r.done()
}

/// hostile directory content (C13 names the async port): no panic, and the async listing equals the sync one
#[cfg(unix)]
fn oracle_hostile() -> bool {
    use std::os::unix::ffi::OsStrExt;
    let mut r = Report::new("hostile");
    let rt = rt();
    let dir = std::env::temp_dir().join(format!("vfs-adiff-hostile-{}", std::process::id()));
    for op in 0..4 {
        r.case();
        let _ = std::fs::remove_dir_all(&dir);
        std::fs::create_dir_all(dir.join("root/realdir")).unwrap();
        std::fs::write(dir.join("root/plain"), b"p").unwrap();
        std::os::unix::fs::symlink(dir.join("root/no_such_target"), dir.join("root/dangling")).unwrap();
        let _ = std::fs::write(dir.join("root").join(std::ffi::OsStr::from_bytes(b"bad\xffname")), b"b");
        let sroot: VfsPath = PhysicalFS::new(dir.join("root")).into();
        let aroot: AsyncVfsPath = AsyncPhysicalFS::new(dir.join("root")).into();
        let res = catch_unwind(AssertUnwindSafe(|| rt.block_on(async {
            match op {
                0 => { let mut a: Vec<String> = match aroot.read_dir().await { Ok(s) => s.map(|p| p.filename()).collect().await, Err(e) => return Some(format!("async read_dir failed: {}", e)) }; a.sort();
                       let mut s: Vec<String> = sroot.read_dir().unwrap().map(|p| p.filename()).collect(); s.sort();
                       tr(&a.join("|"));
                       if a != s { return Some(format!("listing differs: sync {:?}, async {:?}", s, a)); } }
                1 => { let (x, y) = (outcome(&sroot.join("dangling").unwrap().create_dir()), outcome(&aroot.join("dangling").unwrap().create_dir().await)); if x != y { return Some(format!("create_dir over a dangling symlink: sync {:?}, async {:?}", x, y)); } }
                2 => { let _ = async_walk(&aroot).await; }
                _ => { for n in ["dangling", "plain", "realdir"] { let q = aroot.join(n).unwrap(); let _ = q.metadata().await; let _ = q.exists().await; let _ = q.read_dir().await.map(|_| ()); let _ = q.remove_dir().await; } }
            }
            None
        })));
        let what = format!("scenario {} on a directory holding a dangling symlink and a non-UTF-8 name", op);
        match res { Err(_) => r.fail(what, "panicked".into()), Ok(Some(d)) => r.fail(what, d), Ok(None) => {} }
    }
    let _ = std::fs::remove_dir_all(&dir);
    r.done()
}
#[cfg(not(unix))]
fn oracle_hostile() -> bool { true }

/// write handles that overlap or outlive their file (memory, altroot, overlay): the async tree ends up like the sync tree
fn oracle_handles() -> bool {
    let mut r = Report::new("handles");
    let rt = rt();
    for kind in ["memory", "altroot", "overlay"] {
        for scenario in 0..6 {
            r.case();
            let pair = make_pair(kind);
            let res = catch_unwind(AssertUnwindSafe(|| rt.block_on(async {
                let (fs_, fa) = (pair.s.join("f").unwrap(), pair.a.join("f").unwrap());
                fs_.create_file().unwrap().write_all(b"abc").unwrap(); fa.create_file().await.unwrap().write_all(b"abc").await.unwrap();
                match scenario {
                    0 => { // an idle handle dropped after another handle wrote
                        let hs = fs_.create_file().unwrap(); let mut gs = fs_.create_file().unwrap(); gs.write_all(b"late").unwrap(); drop(gs); drop(hs);
                        let ha = fa.create_file().await.unwrap(); let mut ga = fa.create_file().await.unwrap(); ga.write_all(b"late").await.unwrap(); drop(ga); drop(ha); }
                    1 => { // an idle handle dropped after the file was removed
                        let hs = fs_.create_file().unwrap(); fs_.remove_file().unwrap(); drop(hs);
                        let ha = fa.create_file().await.unwrap(); fa.remove_file().await.unwrap(); drop(ha); }
                    2 => { // a handle with data dropped after the file was removed
                        let mut hs = fs_.append_file().unwrap(); hs.write_all(b"d").unwrap(); fs_.remove_file().unwrap(); drop(hs);
                        let mut ha = fa.append_file().await.unwrap(); ha.write_all(b"d").await.unwrap(); fa.remove_file().await.unwrap(); drop(ha); }
                    3 => { // flush, foreign write, flush again
                        let mut hs = fs_.create_file().unwrap(); hs.write_all(b"AAA").unwrap(); hs.flush().unwrap(); fs_.create_file().unwrap().write_all(b"zz").unwrap(); hs.flush().unwrap();
                        let mut ha = fa.create_file().await.unwrap(); ha.write_all(b"AAA").await.unwrap(); ha.flush().await.unwrap(); fa.create_file().await.unwrap().write_all(b"zz").await.unwrap(); ha.flush().await.unwrap();
                        let (x, y) = (fs_.read_to_string().ok(), fa.read_to_string().await.ok()); tr(&format!("mid {:?}", y));
                        if x != y { return Some(format!("after the repeated flush: sync {:?}, async {:?}", x, y)); } }
                    5 => { // the file is removed between the write and an explicit flush; observed while the handles are still open
                        let mut hs = fs_.create_file().unwrap(); hs.write_all(b"pay").unwrap(); fs_.remove_file().unwrap(); hs.flush().unwrap();
                        let mut ha = fa.create_file().await.unwrap(); ha.write_all(b"pay").await.unwrap(); fa.remove_file().await.unwrap(); ha.flush().await.unwrap();
                        for p in ["", "/f"] {
                            let (x, y) = (sync_obs(&pair.s, p), async_obs(&pair.a, p).await); tr(&format!("open {} {:?}", p, y));
                            if x != y { return Some(format!("after remove + flush, handles still open, at {:?}: sync {:?}, async {:?}", p, x, y)); }
                        }
                        drop(hs); drop(ha); }
                    _ => { // two append handles
                        let hs1 = fs_.append_file().unwrap(); let mut hs2 = fs_.append_file().unwrap(); hs2.write_all(b"2").unwrap(); drop(hs2); drop(hs1);
                        let ha1 = fa.append_file().await.unwrap(); let mut ha2 = fa.append_file().await.unwrap(); ha2.write_all(b"2").await.unwrap(); drop(ha2); drop(ha1); }
                }
                for p in ["", "/f"] {
                    let (x, y) = (sync_obs(&pair.s, p), async_obs(&pair.a, p).await); tr(&format!("{} {:?}", p, y));
                    if x != y { return Some(format!("afterwards at {:?}: sync {:?}, async {:?}", p, x, y)); }
                }
                None
            })));
            let what = format!("backend={} scenario={}", kind, scenario);
            match res { Err(_) => r.fail(what, "panicked".into()), Ok(Some(d)) => r.fail(what, d), Ok(None) => {} }
        }
    }
    r.done()
}

/// the optional trait methods called directly on the filesystem objects (not through the path type, whose own checks mask part of them):
/// copy_file / move_file / move_dir of memory and altroot for every (src, dest) of a small universe including the root path ""
fn oracle_direct() -> bool {
    use vfs::FileSystem;
    let mut r = Report::new("direct");
    let rt = rt();
    let names = ["", "/a", "/b", "/d", "/d/x", "/nope"];
    for kind in ["memory", "altroot"] {
        for m in 0..3 { for s in names { for d in names {
            r.case();
            let res = catch_unwind(AssertUnwindSafe(|| rt.block_on(async {
                let sm: VfsPath = MemoryFS::new().into(); let am: AsyncVfsPath = AsyncMemoryFS::new().into();
                let (sb, ab) = if kind == "memory" { (sm.clone(), am.clone()) } else { (sm.join("r").unwrap(), am.join("r").unwrap()) };
                if kind != "memory" { sb.create_dir().unwrap(); ab.create_dir().await.unwrap(); }
                sb.join("a").unwrap().create_file().unwrap().write_all(b"A").unwrap(); sb.join("d").unwrap().create_dir().unwrap(); sb.join("d/x").unwrap().create_file().unwrap().write_all(b"X").unwrap();
                ab.join("a").unwrap().create_file().await.unwrap().write_all(b"A").await.unwrap(); ab.join("d").unwrap().create_dir().await.unwrap(); ab.join("d/x").unwrap().create_file().await.unwrap().write_all(b"X").await.unwrap();
                let (x, y) = if kind == "memory" {
                    let (sf, af) = (MemoryFS::new(), AsyncMemoryFS::new());
                    match m { 0 => (outcome(&sf.copy_file(s, d)), outcome(&af.copy_file(s, d).await)), 1 => (outcome(&sf.move_file(s, d)), outcome(&af.move_file(s, d).await)), _ => (outcome(&sf.move_dir(s, d)), outcome(&af.move_dir(s, d).await)) }
                } else {
                    let (sf, af) = (AltrootFS::new(sb.clone()), AsyncAltrootFS::new(ab.clone()));
                    match m { 0 => (outcome(&sf.copy_file(s, d)), outcome(&af.copy_file(s, d).await)), 1 => (outcome(&sf.move_file(s, d)), outcome(&af.move_file(s, d).await)), _ => (outcome(&sf.move_dir(s, d)), outcome(&af.move_dir(s, d).await)) }
                };
                tr(&format!("{:?}", y));
                if x != y { return Some(format!("result class: sync {:?}, async {:?}", x, y)); }
                for p in ["", "/a", "/b", "/d", "/d/x"] {
                    let (x, y) = (sync_obs(&sb, p), async_obs(&ab, p).await); tr(&format!("{} {:?}", p, y));
                    if x != y { return Some(format!("afterwards at {:?}: sync {:?}, async {:?}", p, x, y)); }
                }
                None
            })));
            let what = format!("backend={} method={} src={:?} dest={:?} called on the filesystem object", kind, ["copy_file", "move_file", "move_dir"][m], s, d);
            match res { Err(_) => r.fail(what, "panicked".into()), Ok(Some(d)) => r.fail(what, d), Ok(None) => {} }
        } } }
    }
    r.done()
}

fn main() {
    let args: Vec<String> = std::env::args().skip(1).collect();
    let deep = args.iter().any(|a| a == "--deep");
    let mut ok = true;
    std::panic::set_hook(Box::new(|_| {}));
    for a in args.iter().filter(|a| !a.starts_with("--")) {
        ok &= match a.as_str() {
            "steps.memory" => oracle_steps("memory", if deep { 3 } else { 2 }),
            "steps.altroot" => oracle_steps("altroot", 2),
            "steps.overlay" => oracle_steps("overlay", if deep { 3 } else { 2 }),
            "steps.physical" => oracle_steps("physical", 1),
            "reader" => oracle_reader(if deep { 3 } else { 2 }),
            "schedule" => oracle_schedule(),
            "transfer" => oracle_transfer(),
            "handles" => oracle_handles(),
            "direct" => oracle_direct(),
            "hostile" => oracle_hostile(),
            other => { println!("UNKNOWN {}", other); false }
        };
    }
    std::process::exit(if ok { 0 } else { 1 });
}
