# claims table, exec'd by mkmanifest.py.  claim(pid, level text, note, DESIGN ref) / na(pid, reason)
claim('C14',
      "Proof, for all contents, positions, offsets and buffer lengths (no bound), that MemoryFS read handles implement the cursor model of spec/cursor.rs: "
      "read returns min(n, remaining) bytes in order, leaves the rest of the buffer and the content untouched and advances by exactly the count; seek(Start|Current|End) lands on base+offset or fails "
      "without moving when the target is negative or overflows. Every script of read/seek calls follows by induction because the contracts are state-transition contracts on (content, position).",
      "Write handles are covered relative to an assumed std::io::Cursor<Vec<u8>> model once unit U02 is present; handles of other backends (std::fs::File, rust-embed Cursor) are std types and are assumed.",
      "DESIGN.md section 5, C14")

for _pid, _why in {
    'C02': "relational against the operating system: one side of the relation (PhysicalFS/std::fs) can only be assumed, so no contract within reach decides it (DESIGN section 5, C02)",
    'C16': "quantifies over thread interleavings; Kani has no threads and Verus can only reason about its own permission-carrying lock types, which the real code does not use (DESIGN section 5, C16)",
    'C17': "quantifies over thread interleavings (same reason as C16); the sequential facts it rests on are proved under C01/C11/C12 but do not decide it",
}.items():
    na(_pid, _why)
for _pid in ['C01', 'C03', 'C04', 'C05', 'C06', 'C07', 'C08', 'C09', 'C10', 'C11', 'C12', 'C13', 'C15', 'C18', 'C19', 'C20']:
    if _pid not in CHECKS:
        na(_pid, "not claimed yet: the unit(s) carrying this property's contracts are still being built (see DESIGN.md section 11 for the order)")
