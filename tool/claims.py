# claims table, exec'd by mkmanifest.py.  claim(pid, level text, note, DESIGN ref) / na(pid, reason)
SCOPE = ("Every obligation is discharged by Verus on the function text extracted from /repo on this run, for all arguments, trees, byte contents and history lengths (contracts are state-transition contracts plus inductive invariants, so 'all histories' follows by induction). ")

claim('C01',
      SCOPE + "Proved: every MemoryFS operation meets the trait contract TC (and its completeness half TC+) over the abstraction tree_of(files) with whole-map frames; every VfsPath primitive meets the path contract PC for ANY backend meeting TC "
      "(success implies the documented precondition and the exact effect, failure leaves the tree unchanged, occupied create_dir classified by occupant, exactness 'succeeds exactly when' for backends that do not fail spuriously); "
      "AltrootFS meets TC over the subtree view given PC on the inner layer, hence every altroot stacking does. OverlayFS: see C08-C10. PhysicalFS/OS: assumed to meet TC.",
      "Assumed: TC for dyn FileSystem at the World boundary (rule R5) - it is proved for MemoryFS and AltrootFS, assumed for PhysicalFS/EmbeddedFS (PhysicalFS methods are under weak contracts: panic-freedom, truncating create, append mode, directory length 0; the OS side is opaque); lock cell store-passing (R4). Functions out of reach are 'watched' (source hash) and decided by the bounded oracles when they change.",
      "DESIGN.md section 5, C01")
claim('C03',
      SCOPE + "wf (root is a directory, every entry canonical with a directory parent) is an inductive invariant: MemoryFsImpl::new establishes it, every VfsPath mutator has 'wf(old) ==> wf(final)' proved from its PC clause through the spec-level lemmas of spec/wf.rs, for unrestricted call types "
      "(wrong-type calls are the proved 'Err ==> unchanged' clauses; MemoryFS create_file/append_file/remove_file/remove_dir/read_dir type checks are proved after the fix commits). Root removal and stale write handles are excluded as in the property text.",
      "OverlayFS union view: see C09/C10 findings. PhysicalFS assumed.",
      "DESIGN.md section 5, C03")
claim('C04',
      SCOPE + "Proved for the in-memory data path: ReadableFile::read returns exactly content[pos..pos+k]; WritableFile::write/seek follow the Cursor model; flush/drop publish exactly the buffer (tc_publish) keeping created/accessed; create_file starts (empty, 0), append_file starts (old bytes, len); metadata reports bytes.len for files and 0 for directories (representation invariant mem_inv); VfsPath/AltrootFS pass handles and lengths through unchanged.",
      "Assumed: std::io::Cursor<Vec<u8>> write/seek model (prelude/mem.rs), std::io::copy, PhysicalFS contents (OS).",
      "DESIGN.md section 5, C04")
claim('C05',
      SCOPE + "Proved: MemoryFS exists/metadata/open_file/read_dir all read the same abstraction; MemoryFS::read_dir (rule R19, loop invariant over HashMap::iter) lists exactly the bare child names, each once, errs on files and missing paths; VfsPath::is_file/is_dir = exists && type; VfsPath::read_dir yields exactly parent + '/' + name for the backend's listing; AltrootFS::read_dir lists exactly the children of P + q (bare names); OverlayFS::read_dir succeeds only on a path served as a directory; WalkDirIterator::next is proved as a step contract (yields the head of the current listing, pushes it iff it is a directory, None only when listing and stack are empty, error items carry the entry's path).",
      "Not proved: the global traversal statement (every descendant exactly once, directory before contents) - only the step contract. OverlayFS::read_dir lists exactly the merged children minus marked names (overlay.read_dir.union, see C09). Iterator adapters are replaced by eager stand-ins (rule R8).",
      "DESIGN.md section 5, C05")
claim('C06',
      SCOPE + "Complete functional proof of join_internal (total, rejects exactly trailing slash with length > 1, canonical result equal to the lexical resolution join_spec, '..' at root stays, leading '/' restarts, multi-byte safe char boundaries), parent_internal = parent_spec, filename_internal = filename_spec, extension_internal = ext_spec, "
      "VfsPath::{join, parent, root, is_root, as_str, filename, extension} with the type invariant canonical(path) established and preserved.",
      "Trusted: the str prelude (rfind/starts_with/ends_with/contains/indexing specs, byte-offset bridge axioms, split/rsplitn stand-ins R6/R25).",
      "DESIGN.md section 5, C06")
claim('C07',
      SCOPE + "AltrootFS::path(q) = (root.fs, P + q) for every canonical q (confinement lemma lemma_join_of_relative over the proved join contract); every AltrootFS method except copy_file is proved to have exactly the TC outcome and effect of the same operation on P + q, viewed through subtree(t, P), "
      "and the frame changed_only_under(t, t', P): nothing outside P is created, changed or removed.",
      "PhysicalFS::get_path is proved to hand the OS root.join(rel) with rel relative and free of '.'/'..' components for every canonical path; PathBuf::join and symlinks are the OS side (assumed). AltrootFS::copy_file is watched only.",
      "DESIGN.md section 5, C07")
claim('C12',
      SCOPE + "Proved: From<VfsErrorKind>/From<io::Error> normalise exactly NotFound -> FileNotFound and fill the placeholder path; with_path sets exactly the path and keeps the kind; with_context/with_cause keep both; every VfsPath primitive relabels backend errors with its own path (closure contracts 'relabelled'), get_parent errors name the path or its parent; "
      "join rejects trailing slashes as InvalidPath naming the argument; MemoryFS classifies missing entries as FileNotFound and occupied create_dir targets as FileExists/DirectoryExists; only create_dir produces those two kinds (kind neutrality).",
      "Composite operations (copy/move/walk) and OverlayFS are covered once U07/U09 land.",
      "DESIGN.md section 5, C12")
claim('C14',
      "Proof, for all contents, positions, offsets and buffer lengths (no bound), that MemoryFS read handles implement the cursor model of spec/cursor.rs: "
      "read returns min(n, remaining) bytes in order, leaves the rest of the buffer and the content untouched and advances by exactly the count; seek(Start|Current|End) lands on base+offset or fails "
      "without moving when the target is negative or overflows. Write handles: seek/write follow the assumed std::io::Cursor model, flush and drop publish exactly the buffer, create starts empty, append starts at the end of the existing bytes. "
      "Every script of calls follows by induction because the contracts are state-transition contracts.",
      "Assumed: std::io::Cursor<Vec<u8>> write/seek model (the write handle delegates to it); handles of other backends (std::fs::File, rust-embed Cursor) are std types.",
      "DESIGN.md section 5, C14")
claim('C19',
      SCOPE + "Proved: MemoryFS set_*_time changes exactly the named field of the named entry (whole-map postcondition tc_set_time) and fails unchanged otherwise; flush keeps created/accessed of the previous entry (append preserves creation time); VfsPath and AltrootFS pass the call through with the same effect.",
      "PhysicalFS/filetime assumed; OverlayFS timestamps: see U09.",
      "DESIGN.md section 5, C19")

claim('C08',
      SCOPE + "Every OverlayFS method is proved to satisfy the frame ov_frame: in the upper filesystem only entries below the upper root change (lemma_frame_ok_under covers create_dir_all through ancestors of a shared filesystem), every filesystem independent of the upper one is unchanged up to access times, "
      "and every newly issued mutating trait call (ghost mutlog of rule R5) targets the upper filesystem - unconditionally, i.e. also on every error exit. Observers (exists, metadata, read_dir, open_file, read_path; VfsPath is_file/is_dir/read_dir/walk next/read_to_string) are proved to leave the mutlog untouched and all trees equal (open_file: up to access times).",
      "Effect frame is stated modulo access times (MemoryFS::open_file touches atime); requires at least one layer and, for operations that create the bookkeeping folder, an existing upper root in a well-formed upper filesystem. Layers that alias state without being the same Arc are outside (World::indep).",
      "DESIGN.md section 5, C08")
claim('C09',
      SCOPE + "Read side proved: read_path returns the path in the first layer that has the entry iff no marker hides it (serving layer), is total for backends that do not fail, and its fallback branch is dead code; exists = visible (exact for reliable layers, Ok(true) always sound); metadata and open_file report the serving layer's entry and bytes; append_file continues the upper copy and writes through the upper handle. "
      "Write-side clauses taken verbatim from the property text (create over a lower-only entry must fail, remove_dir with lower children must fail, type checks on remove, set_*_time on lower-only entries) are refuted by the current code: each is reproduced on the real crate (replay/src/bin/findings.rs) and reported as KNOWN-FINDING; they are checked on every run in isolated twin functions so any other breach still alarms.",
      "read_dir union semantics IS proved (overlay.read_dir.union): the listing holds, each exactly once, the names that are a child of the path in some layer that has the path as a directory, minus the names whose marker name_wo sits in the path's whiteout folder, minus '.whiteout' at the root (set-level loop invariants over the HashSet, the loops read through rule R12b). Known findings are listed in known_findings.json.",
      "DESIGN.md section 5, C09")
claim('C10',
      SCOPE + "Proved: whiteout_path(q) is exactly <upper root>/.whiteout<q>_wo (marker_path) for every canonical q; remove_file/remove_dir leave the marker in place on success and exists/read_path/metadata/open_file treat a marked path as absent; create_dir/create_file remove exactly that marker and leave a fresh empty upper entry; the root listing never shows '.whiteout' (after the fix commit). "
      "Known finding: descendants of a removed lower directory stay visible (marker hides only the directory).",
      "Marker persistence across later operations: every overlay mutator on q keeps every upper entry other than q's upper copy and q's marker (keeps_other_entries), hence the markers of all other paths (lemma_markers_persist, marker_path is injective); reserved names ('.whiteout', '*_wo') are excluded as in the property.",
      "DESIGN.md section 5, C10")
claim('C11',
      SCOPE + "Proved: create_dir_all (loop invariant over component boundaries) adds only directories at component prefixes, leaves every existing entry untouched and on Ok every prefix is a directory - against a backend that may fail at every call; remove_dir_all: absent path is a no-op success, everything changed lies below the path, Ok implies the path is gone, wf preserved (recursion, termination not proved); "
      "copy_file / move_file (rule R16): an existing destination is refused with the world unchanged, Ok implies the destination holds exactly the source bytes (and for move the source is gone), only the destination (and source) entries change, same-instance fast path and generic route both covered (Arc identity token). "
      "copy_dir / move_dir (closure lifted by R16, the for loop over the real WalkDirIterator by R12b): an existing destination is refused with the world unchanged; only entries at or below the destination (move_dir: and at or below the source) change, every independent filesystem stays the same up to access times; on Ok(n) of copy_dir there are exactly n entries - the ones the traversal yielded - and each has its counterpart at destination + (entry minus source prefix) with the same kind and, for files, the same bytes (the target path is computed from the join contract), the destination directory exists; move_dir on Ok leaves no entry at the source path (fast path through an assumed tc_move_dir, generic route = the copy loop + remove_dir_all). Precondition: same instance, or a destination whose mutations cannot reach the source. Not proved: that the traversal yields every descendant (bounded: copydir, tree.* oracles), termination.",
      "std::io::copy and handle writes are modelled write-through at the World level (sessions atomic, see DESIGN 4.3); fast-path trait methods assumed to meet tc_copy_file/tc_move_file/tc_move_dir; the u64 entry counter of copy_dir is assumed not to overflow (rule R31).",
      "DESIGN.md section 5, C11")
claim('C20',
      SCOPE + "Falls out of modularity: in every proof of U06-U09 a callee into an underlying filesystem is known only through TC, which allows Err at every call; the discharged clauses 'Ok ==> full effect' (create_dir_all, remove_dir_all, copy_file, move_file, copy_dir, move_dir, read_to_string, get_parent, is_file/is_dir, walk next, every AltrootFS/OverlayFS method) therefore hold for every position k of a failing call and every history, "
      "and the OverlayFS frame (never a lower layer) is unconditional. OverlayFS::exists no longer maps layer errors to Ok(false) (fix commit).",
      "Fault kinds are the ones TC allows (any error that is not DirectoryExists/FileExists from observers); for copy_dir/move_dir the generated clause 'faults increased ==> Err' is discharged through the loop (invariant no_fault), the 'full effect' part is the exactness clause relative to the entries the traversal yielded.",
      "DESIGN.md section 5, C20")

claim('C13',
      "Panic-freedom is the implicit obligation set Verus generates for every extracted function (arithmetic overflow/underflow, index and slice bounds, char boundaries of str slices, unwrap/expect on None/Err, unreachable panics, callee preconditions), checked for ALL arguments under the type invariants canonical(path) and layers.len() >= 1. "
      "Discharged for every function under contract in U01-U14 and in the async units U21-U30 (async path type, AsyncMemoryFS and its read handle, AsyncAltrootFS, AsyncOverlayFS, the poll_next state machine - read through rule R30): all MemoryFS methods and both handle types, PathLike, every VfsPath method except new (copy_dir/move_dir: the slice that cuts the source prefix off is in bounds and on a char boundary because every yielded path lies strictly below the source), WalkDirIterator::next, AltrootFS, OverlayFS (incl. read_dir's byte-length slicing of the '_wo' suffix), PhysicalFS::get_path/create_dir, EmbeddedFS::normalize_path/exists/refusals, error conversions, trait defaults. "
      "Seven panics found this way were genuine and are repaired by fix: commits (reader len/seek, EmbeddedFS::open_file on the root, PhysicalFS read_dir/create_dir unwraps; the same unwraps in AsyncPhysicalFS).",
      "Not covered (listed in evidence): functions out of Verus's reach - PhysicalFS methods other than get_path/create_dir (std::fs calls), EmbeddedFS::new/read_dir/metadata/open_file (rust-embed), VfsPath::new, of the async port AsyncPhysicalFS, the write handle's poll delegations and copy_dir/move_dir; lock poisoning (unwrap on RwLock) is excluded by rule R4; termination of remove_dir_all / copy_dir / move_dir / the walk is not proved; the u64 entry counter of copy_dir is assumed not to overflow (R31). Bounded stand-ins (oracle crate) cover part of the rest in the thorough tier.",
      "DESIGN.md section 5, C13")
claim('C18',
      "Proved for the parts inside the crate that Verus can reach: the five mutators (create_dir, create_file, append_file, remove_file, remove_dir) return NotSupported for every path (and, taking &self on a struct without interior mutability, change nothing); exists is total and reports the root as existing; normalize_path strips exactly the leading '/' without panicking on any canonical path (after the fix commit open_file uses it too).",
      "EmbeddedFS::new / read_dir / metadata / open_file call into rust-embed (T::get, T::iter), which cannot be linked in single-file Verus mode: they are assumed; equality with a PhysicalFS on the same folder is outside the contracts (OS) and is covered by the bounded oracle `embedded` only (EmbeddedFS against PhysicalFS on the fixture folder replay/embed, 65 paths). This is a partial claim by construction.",
      "DESIGN.md section 5, C18")

for _pid, _why in {
    'C02': "relational against the operating system: one side of the relation (PhysicalFS/std::fs) can only be assumed, so no contract within reach decides it (DESIGN section 5, C02)",
    'C16': "quantifies over thread interleavings; Kani has no threads and Verus can only reason about its own permission-carrying lock types, which the real code does not use (DESIGN section 5, C16)",
    'C17': "quantifies over thread interleavings (same reason as C16); the sequential facts it rests on are proved under C01/C11/C12 but do not decide it",
}.items():
    na(_pid, _why)
claim('C15',
      "Every function of the async path type (primitives and composites), of AsyncAltrootFS, of AsyncOverlayFS and of AsyncMemoryFS (all trait methods and the publishing Drop of its write handle) is extracted from src/async_vfs on this run, read through rule R30 (await erasure: `.await` dropped, `async fn` -> `fn`, port type names mapped to the sync names, Stream -> Iterator, `while let Some(x) = s.next()` -> `for`, `async { .. }.await` -> immediately invoked closure, async lock acquisition -> the shape rule R4 knows) and "
      "proved by Verus against the SAME contracts, loop invariants and lemmas that the sync functions are proved against (units U23, U26-U29 are `derive`d from U03, U06-U09; amendments are stated in the unit files: the port keeps no timestamps, publishes on drop, stores the path in a String): both sides meet the trait contract TC / TC+ / path contract PC, frames and serving semantics, and where these contracts are exact (success exactly when the precondition holds, exact effect, error classes) the outcomes, error classes and observable trees coincide. The async read handle (poll_read / poll_seek, U21) is proved against the cursor model the sync read handle is proved against. "
      "The hand-written Stream::poll_next of walk_dir (U30) is proved as a state machine over opaque in-flight futures: a poll of a stored future is either Pending (and then nothing has happened) or Ready with the outcome of the call under its proved contract; with the representation invariant wd_inv (what is in flight matches what is stored) the function is proved, for EVERY poll schedule, to keep the next entry across Pending returns (no loss, duplication or reordering) and to obey the step contract of the sync iterator's next on every Ready item - this is the part of 'independent of how often futures return pending' that a contract can state. "
      "Not within reach and decided by a bounded stand-in only: AsyncPhysicalFS, the write handle's poll_write/poll_flush/poll_close (delegation to an async_std Cursor), copy_dir/move_dir (watched by source hash); the differential oracle (replay/src/bin/adiff.rs) runs the sync and async APIs side by side, including a filesystem whose every call and stream item returns Pending k = 0..3 times first and entries that vanish during a walk.",
      "Assumed: an await point is transparent (one task, no interleaving between the steps of an operation - rule R30a); the model of a boxed future (prelude/asyncport.rs, rule R30i: polling performs the call atomically at the Ready poll); the sync contracts themselves are proved under C01-C14/C19/C20; known findings of the sync overlay are shared by the port and are not C15 violations. The bounded parts are labelled bounded and never counted as discharged.",
      "DESIGN.md section 5, C15")
