"""Verdict, evidence and replay files."""
import json
import os
import re
import sys
import time
import gen
import run
from extract import Undecided

VERIF = gen.VERIF
OUT = os.environ.get('VERIF_SCRATCH') or VERIF   # evidence/ and replays/ of scratch runs (seed trials) do not overwrite the real ones


def safe(s):
    return re.sub(r'[^A-Za-z0-9_.-]+', '_', s)[:120]


def write_replay(pid, r, oid, diags, witness, confirmed):
    os.makedirs(os.path.join(OUT, 'replays'), exist_ok=True)
    path = os.path.join(OUT, 'replays', '%s-%s-%s.json' % (pid, r.name, safe(oid)))
    ob = r.obligations.get(oid, {})
    fn = ob.get('fn')
    finfo = next((f for f in r.gen.functions if f['name'] == fn), {})
    json.dump({
        'property': pid,
        'unit': r.name,
        'obligation': oid,
        'obligation_kind': ob.get('kind'),
        'clause_text': ob.get('text'),
        'function': fn,
        'source': '%s:%s' % (finfo.get('source'), finfo.get('line')),
        'source_item': finfo.get('path'),
        'rewrite_rules_applied': finfo.get('rules'),
        'verifier': 'verus (z3)',
        'verifier_cmd': r.cmd,
        'generated_file': os.path.join(OUT, 'build', r.name + '.rs'),
        'status': 'obligation was discharged on the pinned tree (units/%s.expect) and is refuted now%s' % (r.name, ' (confirmed by a second run with a larger resource limit and another seed)' if confirmed else ''),
        'verifier_output': [d['rendered'] for d in diags],
        'witness': witness,
        'note': None if witness else 'no-failing-input-found: the deductive verifier gives no counterexample; the failed obligation and the verifier output above identify the violation',
    }, open(path, 'w'), indent=1)
    return path


def replay(path):
    d = json.load(open(path))
    print('replay of %s: property %s, obligation %s in %s (%s)' % (path, d['property'], d['obligation'], d['function'], d['source']))
    print('clause:', d.get('clause_text'))
    for o in d.get('verifier_output', []):
        print(o)
    if d.get('witness'):
        import oracles
        w = d['witness']
        print('replaying bounded witness with oracle %s: %s' % (w['oracle'], w['failing_input']))
        trust, res = oracles.run([w['oracle']], deep=('--deep' in (w.get('cmd') or '')))
        bad = [b for b in res if b['status'] != 'PASS']
        for b in res:
            print(b['status'], b['check'], b['detail'])
        return 1 if bad else 0
    print('no-failing-input-found (no concrete input to replay); re-running the obligation:')
    os.execv(os.path.join(VERIF, 'check'), [os.path.join(VERIF, 'check'), d['property'], '--unit', d['unit']])


def decide(pid, prop, tier, seed, results, undecided, t0, load_expect, findings):
    lines = []
    viol = []
    known = []
    undec = list(undecided)
    n_obl = 0
    n_dis = 0
    samples = []
    trusted = []
    fns = []
    solver_us = 0
    rules_fired = {}
    cmds = []
    known_ids = {(f['property'], f['obligation']): f for f in findings.get('findings', [])}
    for r in results:
        expect = load_expect(r.name)
        cmds.append(r.cmd)
        for t in r.gen.trusted:
            if t not in trusted:
                trusted.append(t)
        for k, v in r.gen.rules_fired.items():
            rules_fired[k] = rules_fired.get(k, 0) + v
        if expect is None:
            undec.append((r.name, 'no units/%s.expect (pinned-tree record) present' % r.name))
            continue
        for wk, wv in r.gen.watched.items():
            if pid in wv['tags'] and getattr(expect, 'watched', {}).get(wk) != wv['sha']:
                undec.append((r.name, 'watched function %s (outside the verifier\'s reach, covered only by the bounded oracle) changed since the pinned tree' % wk))
        # the obligations of one function stand or fall together (an invariant that is not established is still assumed by everything after
        # it), so a property owns every obligation of the functions that carry one of its clauses, whatever that obligation is tagged with
        fns_of_pid = set(o['fn'] for o in r.obligations.values() if pid in o['tags'] and o['kind'] != 'ensures-strict')
        # (a postcondition tagged `only` is exempt: it belongs to the properties it names and to no other - used where a clause states more than
        # the function's other properties ask for, e.g. the error class of a refusal)
        mine = {k: o for k, o in r.obligations.items() if pid in o['tags'] or (o['fn'] in fns_of_pid and o['kind'] != 'ensures-strict' and 'only' not in o['tags'])}
        missing = [k for k in expect if k not in r.obligations]
        if missing:
            undec.append((r.name, 'obligations recorded on the pinned tree are no longer generated: %s' % ', '.join(missing[:5])))
        # a resource-limit hit in a strict twin whose clauses are all listed findings is reported through the finding, not as undecided
        def _only_findings(fn):
            obs = [k for k, o in r.obligations.items() if o['fn'] == fn]
            return obs and all(any(key[1] == k for key in known_ids) for k in obs)
        hard = [h for h in r.rlimit_hits if not _only_findings(h['fn'])]
        if hard:
            undec.append((r.name, 'resource limit hit in %s' % ', '.join(sorted(set(str(h['fn']) for h in hard)))))
        rawfail = [k for k in r.failed if k.startswith('raw:') or k == 'unattributed']
        if rawfail:
            undec.append((r.name, 'spec-library / lemma text failed (machinery, not /repo code): %s: %s' % (', '.join(rawfail), r.failed[rawfail[0]][0]['message'])))
        fnames = set()
        for k, o in mine.items():
            n_obl += 1
            fnames.add(o['fn'])
            if len(samples) < 12:
                samples.append({'unit': r.name, 'obligation': k, 'kind': o['kind'], 'function': o['fn'], 'clause': o['text'][:300]})
            if k not in r.failed:
                n_dis += 1
                continue
            if (pid, k) in known_ids:
                known.append((k, known_ids[(pid, k)]))
                n_obl -= 1   # a listed finding is reported, not counted as an obligation of the proof
                continue
            if all(d.get('rlimit') for d in r.failed[k]):
                continue   # undecided (reported once per unit as a resource-limit hit), never a violation
            if (pid, k) in known_ids:
                known.append((k, known_ids[(pid, k)]))
                n_obl -= 1   # a listed finding is reported, not counted as an obligation of the proof
                continue
            if k in expect:
                viol.append((r, k))
            else:
                undec.append((r.name, 'obligation %s has never been discharged (not in units/%s.expect): %s' % (k, r.name, r.failed[k][0]['message'])))
        for f in r.gen.functions:
            if f['name'] in fnames or pid in f.get('props', []):
                us = sum(v for kk, v in r.fn_times.items() if kk.split('::')[-1] == f['name'].split('::')[-1])
                solver_us += us
                fns.append({'function': f['name'], 'source': '%s:%s' % (f['source'], f.get('line')), 'sha256_16': f['sha'],
                            'rules': f['rules'], 'verbatim': f['verbatim'], 'solver_ms': round(us / 1000.0, 1), 'unit': r.name})
    # flakiness filter: confirm violations with a larger resource limit and another seed
    confirmed = []
    if viol:
        redo = {}
        for r, k in viol:
            redo.setdefault(r.name, []).append(k)
        for uname, ks in redo.items():
            try:
                r2 = run.run_unit(os.path.join(VERIF, 'units', uname + '.vspec'), None, 40, (seed or 0) + 17, 8)
            except Undecided as e:
                undec.append((uname, 'confirmation run undecided: %s' % e))
                continue
            for k in ks:
                if k in r2.failed:
                    confirmed.append((r2, k))
                else:
                    lines.append('NOTE obligation %s failed once but was discharged with a larger resource limit: treated as discharged' % k)
                    n_dis += 1
    exit_code = 0
    import oracles
    bounded = []
    oracle_fail = None
    need_oracles = bool(confirmed) or (bool(undec) and not confirmed) or tier == 'thorough'
    if need_oracles and oracles.PROP_ORACLES.get(pid):
        try:
            trust, bounded = oracles.run(oracles.PROP_ORACLES[pid], deep=(tier == 'thorough'))
            # an aborted oracle process is a panic that nothing could catch: a violation of C13 (no operation panics), undecided for the others
            fails = [b for b in bounded if b['status'] == 'FAIL' or (b['status'] == 'ABORT' and pid == 'C13')]
            for b in bounded:
                if b['status'] == 'ABORT' and pid != 'C13':
                    undec.append(('bounded:' + b['check'], b['detail']))
            if trust and fails:
                oracle_fail = fails[0]
        except Exception as e:  # the bounded search never turns a pass into a failure by crashing
            bounded = [{'check': 'oracles', 'status': 'ERROR', 'detail': repr(e)}]
    # A lost proof is not yet a broken property. A violation without a failing input is reported only if the real crate also ANSWERS
    # differently from the pinned tree somewhere on the bounded universe of this property's oracles (behaviour digests, oracles.py);
    # if every answer is the same the edit is behaviour-preserving as far as anyone can see and the verdict is undecided (exit 2).
    behaviour = None
    if confirmed and not oracle_fail:
        try:
            behaviour = oracles.behaviour_changed(pid, bounded)
        except Exception as e:
            behaviour = (None, repr(e))
        if behaviour[0] is False:
            for r, k in confirmed:
                undec.append((r.name, 'obligation %s is no longer discharged (%s), but on the bounded universe of %s the real crate answers exactly as on the pinned tree: the proof is lost, no violation is established'
                              % (k, r.failed[k][0]['message'][:120], ', '.join(behaviour[1]))))
            confirmed = []
    for r, k in confirmed:
        wit = None
        if oracle_fail:
            wit = {'kind': 'bounded-search', 'oracle': oracle_fail['check'], 'failing_input': oracle_fail['detail'], 'cmd': oracle_fail.get('cmd'),
                   'note': 'found by exhaustive execution of the real crate on a small universe; replay with ./check %s --replay <this file>' % pid}
        path = write_replay(pid, r, k, r.failed[k], wit, True)
        if not wit and behaviour and behaviour[0]:
            try:
                d = json.load(open(path))
                d['behaviour_differs_from_pinned_tree_in'] = behaviour[1]
                json.dump(d, open(path, 'w'), indent=1)
            except Exception:
                pass
        tail = '' if wit else ' no-failing-input-found'
        lines.append('VIOLATION property=%s replay=%s obligation=%s%s' % (pid, path, k, tail))
        exit_code = 1
    for k, f in known:
        lines.append('KNOWN-FINDING: property=%s %s' % (pid, f['what']))
    if oracle_fail and not confirmed:
        # the deductive route is undecided (or thorough tier) but executing the real code on the bounded universe shows a concrete failing input
        os.makedirs(os.path.join(OUT, 'replays'), exist_ok=True)
        path = os.path.join(OUT, 'replays', '%s-bounded-%s.json' % (pid, safe(oracle_fail['check'])))
        json.dump({'property': pid, 'unit': None, 'obligation': 'bounded:' + oracle_fail['check'], 'obligation_kind': 'bounded stand-in (exhaustive execution of the real crate on a small universe; not a proof)',
                   'clause_text': oracle_fail.get('bound'), 'verifier': 'verus undecided; bounded oracle decided',
                   'status': 'the deductive check is undecided on this tree (%s); the bounded stand-in finds a concrete failing input' % ('; '.join(m[:200] for _, m in undec[:2]) or 'thorough tier'),
                   'verifier_output': ['%s: %s' % (n, m[:1500]) for n, m in undec[:3]],
                   'witness': {'kind': 'bounded-search', 'oracle': oracle_fail['check'], 'failing_input': oracle_fail['detail'], 'cmd': oracle_fail.get('cmd')}}, open(path, 'w'), indent=1)
        lines.append('VIOLATION property=%s replay=%s obligation=bounded:%s' % (pid, path, oracle_fail['check']))
        exit_code = 1
        confirmed.append((None, 'bounded:' + oracle_fail['check']))
    if undec and exit_code == 0:
        exit_code = 2
    for n, m in undec:
        lines.append('UNDECIDED %s: %s' % (n, m))
    wall = time.time() - t0
    ev = {
        'property_id': pid,
        'tier': tier if tier in ('quick', 'thorough') else 'quick',
        'seed': seed,
        'level': 'proof',
        'coverage': {
            'obligations': n_obl,
            'discharged': n_dis,
            'checker_cmd': ' ; '.join(cmds) if cmds else 'verus <generated unit>.rs',
            'trusted_base': trusted,
            'backend': 'verus 0.2026.09.13 (z3), single-file mode on text extracted from /repo on this run',
            'units': [r.name for r in results],
            'functions_under_contract': fns,
            'solver_time_ms': round(solver_us / 1000.0, 1),
            'rewrite_rules_fired': rules_fired,
            'samples': samples,
            'vacuity_probe': 'refuted as required in every unit' if results and not undecided else 'see undecided',
            'known_findings_reported': [k for k, _ in known],
            'undecided': ['%s: %s' % (n, m[:300]) for n, m in undec],
            'bounded': [{'check': b['check'], 'status': b['status'], 'bound': b.get('bound', ''), 'detail': b['detail'][:300]} for b in bounded],
            'bounded_note': 'bounded stand-ins are exhaustive executions of the real crate on small universes; they are never counted in obligations/discharged',
        },
        'assumptions': extras_assumptions(results),
        'wall_s': round(wall, 2),
        'violations': len(confirmed),
    }
    if pid != 'ALL':   # `./check ALL` is a maintenance run over every unit, not a property: it writes no evidence file
        os.makedirs(os.path.join(OUT, 'evidence'), exist_ok=True)
        json.dump(ev, open(os.path.join(OUT, 'evidence', pid + '.json'), 'w'), indent=1)
    for l in lines:
        print(l)
    print('property %s: %d obligations, %d discharged, %d violations, %d known findings, %d undecided; units %s; %.1fs'
          % (pid, n_obl, n_dis, len(confirmed), len(known), len(undec), ','.join(r.name for r in results), wall))
    return exit_code


def extras_assumptions(results):
    out = [
        'Verus, Z3 and rustc are trusted; verified text is extracted from /repo on every run and rewritten by the rules listed in coverage.rewrite_rules_fired (DESIGN.md section 3 says what each drops)',
        'every entry of coverage.trusted_base (assume_specification / external_body / axiom / external types) is an unchecked assumption on std or on functions out of reach',
        'machine integers are NOT treated as mathematical: every u64/usize/i64 operation is checked for overflow; usize is assumed 64-bit',
        'concurrency, lock poisoning and OS behaviour are outside the contracts',
    ]
    fired = set()
    watched = []
    for r in results:
        fired.update(k for k, v in r.gen.rules_fired.items() if v)
        watched += sorted(r.gen.watched.keys())
    if any(k.startswith('R30') for k in fired):
        out.append('async port (rule R30, tool/erase.py): an await point is treated as a plain sequential call - one task, no interleaving between the steps of one operation; '
                   'a boxed future performs its call atomically at the poll that returns Ready (prelude/asyncport.rs); wakers / Context are scheduling and are dropped')
    if 'R31' in fired:
        out.append('machine arithmetic treated as mathematical in ONE place (rule R31): the u64 counter of copied entries in copy_dir is assumed not to overflow (one increment per copied entry)')
    if any(r.name == 'U31_async_transfer' for r in results):
        out.append('U31: awaiting `stream.next()` (futures::StreamExt, not a function of the crate) is modelled by a hand-written poll loop over the real poll_next; the loop is verified against '
                   'poll_next\'s proved contract for every number of Pending returns, but that it is what awaiting futures\' Next future amounts to inside one task is assumed, and termination is not proved')
    if any(r.name in ('U07_path_comp', 'U27_async_path_comp', 'U31_async_transfer') for r in results):
        out.append('termination of remove_dir_all / copy_dir / move_dir / the directory walk is not proved (exec_allows_no_decreases_clause); FileSystem::move_dir fast path assumed to meet tc_move_dir')
    if 'R5' in fired:
        out.append('dyn FileSystem behind a VfsPath is only known through the trait contract TC (World, rule R5): proved for MemoryFS, AltrootFS and the serving side of OverlayFS, assumed for PhysicalFS / EmbeddedFS')
    if 'R4' in fired:
        out.append('MemoryFS lock cell is store-passing (rule R4): lock acquisition, poisoning and Arc identity are dropped')
    if watched:
        out.append('functions outside the verifier\'s reach, monitored by source hash only and decided by the bounded oracles when they change: ' + '; '.join(sorted(set(watched))))
    return out
