#!/bin/bash
# usage: seedrun.sh <seed dir (patch.diff, seed_demo.rs, meta.json)> <out id> <PID>...
# verifies the seed in a scratch worktree (suite passes, demo fails with / passes without), runs the given checks against the patched
# scratch tree (VERIF_REPO / VERIF_SCRATCH, so /repo, evidence/ and build/ are untouched) and stores everything under /verif/seeded/<out id>/
set -u
VH=${VERIF_HOME:-/verif}   # the machinery to run (a snapshot copy lets /verif be edited while a batch runs); results always go to /verif/seeded
SRC=$(realpath "$1"); ID=$2; shift; shift
OUT=/verif/seeded/$ID
mkdir -p "$OUT"
cp "$SRC/patch.diff" "$OUT/patch.diff"; cp "$SRC/seed_demo.rs" "$OUT/seed_demo.rs"
V=$($VH/tool/seedverify.sh "$SRC" | tail -4)
echo "$V" > "$OUT/verify.log"
WT=$(mktemp -d /tmp/sr-XXXXXX)
git -C /repo worktree add -q --detach "$WT/repo" HEAD
( cd "$WT/repo" && git apply "$SRC/patch.diff" ) || { echo "patch does not apply"; git -C /repo worktree remove --force "$WT/repo"; rm -rf "$WT"; exit 3; }
RES=""
for pid in "$@"; do
  o=$(VERIF_REPO="$WT/repo" VERIF_SCRATCH="$WT/scratch" $VH/check $pid 2>&1); rc=$?
  echo "=== check $pid exit=$rc" >> "$OUT/checks.log"; echo "$o" | grep -E "^(VIOLATION|UNDECIDED|KNOWN|property)" | cut -c1-300 >> "$OUT/checks.log"
  RES="$RES $pid:$rc"
done
git -C /repo worktree remove --force "$WT/repo" >/dev/null 2>&1; rm -rf "$WT"
python3 - "$SRC/meta.json" "$OUT/meta.json" "$V" "$RES" <<'PY'
import json,sys
src,dst,v,res=sys.argv[1:5]
try: m=json.load(open(src))
except Exception: m={}
m['confirmed_by_us']={'seedverify': v.strip().split('\n'), 'ok': 'RESULT ok=1' in v}
m['checks_run']={x.split(':')[0]: int(x.split(':')[1]) for x in res.split()}
m['detected_by']=[k for k,c in m['checks_run'].items() if c==1]
json.dump(m,open(dst,'w'),indent=1)
print(dst, m['confirmed_by_us']['ok'], m['checks_run'])
PY
