"""Item extraction from Rust source: mechanical slicing, no hand copy."""
import hashlib
import os
import re
from lexer import lex, match_close, strip_comments, LexError


class Undecided(Exception):
    """Anything that prevents a verdict (lost anchor, unsupported construct ...) -> exit 2."""


def norm(s):
    return re.sub(r'\s+', '', s)


def norm_sp(s):
    return re.sub(r'\s+', ' ', s).strip()


class Item:
    def __init__(self, kind, header, name, text, start, sig=None, body=None):
        self.kind = kind      # struct|enum|type|fn|impl|trait|const|use
        self.header = header  # for impl/trait: normalised header text (without the brace)
        self.name = name
        self.text = text      # full item text (comments stripped)
        self.start = start
        self.sig = sig        # for fn: text from 'fn' up to (not including) body brace or ';'
        self.body = body      # for fn: text including braces, or None for a declaration
        self.children = []    # for impl/trait: fn items
        self.parent_text = None


def skip_attrs(toks, i):
    while i < len(toks) and toks[i].text == '#':
        j = i + 1
        if j < len(toks) and toks[j].text == '!':
            j += 1
        if j < len(toks) and toks[j].text == '[':
            i = match_close(toks, j) + 1
        else:
            break
    return i


VIS = ('pub',)


def parse_items(src, toks, i, end):
    """Parse items in toks[i:end] (one nesting level)."""
    items = []
    while i < end:
        attr_tok = i
        i = skip_attrs(toks, i)
        if i >= end:
            break
        start_tok = i
        # visibility
        if toks[i].text == 'pub':
            i += 1
            if i < end and toks[i].text == '(':
                i = match_close(toks, i) + 1
        # qualifiers
        QUAL = ('async', 'unsafe', 'const', 'default', 'extern')
        while i + 1 < end and toks[i].text in QUAL and (toks[i + 1].text in QUAL + ('fn', 'impl', 'trait') or toks[i + 1].kind == 'str'):
            i += 1
            if toks[i].kind == 'str':
                i += 1
        if i >= end:
            break
        kw = toks[i].text
        if kw in ('struct', 'enum', 'union'):
            name = toks[i + 1].text
            j = i + 2
            # find end: ';' or '{...}' (tuple structs: (...) ;)
            while toks[j].text not in ('{', ';'):
                if toks[j].text == '(':
                    j = match_close(toks, j)
                j += 1
            if toks[j].text == '{':
                j = match_close(toks, j)
            items.append(Item(kw, None, name, src[toks[attr_tok].start:toks[j].end], toks[start_tok].start))
            i = j + 1
        elif kw == 'type':
            name = toks[i + 1].text
            j = i
            while toks[j].text != ';':
                j += 1
            items.append(Item('type', None, name, src[toks[start_tok].start:toks[j].end], toks[start_tok].start))
            i = j + 1
        elif kw == 'fn':
            name = toks[i + 1].text
            fn_tok = i
            # include qualifiers (async) in sig start
            sig_start = start_tok
            j = i + 2
            while toks[j].text not in ('{', ';'):
                if toks[j].text in ('(', '['):
                    j = match_close(toks, j)
                j += 1
            sig = src[toks[sig_start].start:toks[j].start]
            if toks[j].text == '{':
                k = match_close(toks, j)
                body = src[toks[j].start:toks[k].end]
                j = k
            else:
                body = None
            it = Item('fn', None, name, src[toks[start_tok].start:toks[j].end], toks[start_tok].start, sig=sig, body=body)
            items.append(it)
            i = j + 1
        elif kw in ('impl', 'trait'):
            j = i
            while toks[j].text != '{':
                if toks[j].text in ('(', '['):
                    j = match_close(toks, j)
                j += 1
            header = src[toks[i].start:toks[j].start]
            k = match_close(toks, j)
            name = toks[i + 1].text if kw == 'trait' else None
            it = Item(kw, norm_sp(header), name, src[toks[start_tok].start:toks[k].end], toks[start_tok].start)
            it.children = parse_items(src, toks, j + 1, k)
            for ch in it.children:
                ch.parent_text = it.text
            items.append(it)
            i = k + 1
        elif kw == 'mod':
            j = i
            while toks[j].text not in ('{', ';'):
                j += 1
            if toks[j].text == '{':
                j = match_close(toks, j)
            i = j + 1
        elif kw in ('use', 'const', 'static', 'extern'):
            j = i
            while toks[j].text != ';':
                if toks[j].text in ('(', '[', '{'):
                    j = match_close(toks, j)
                j += 1
            if kw in ('const', 'static'):
                items.append(Item(kw, None, toks[i + 1].text, src[toks[start_tok].start:toks[j].end], toks[start_tok].start))
            i = j + 1
        elif toks[i].kind == 'ident' and i + 1 < end and toks[i + 1].text == '!':
            # macro invocation item
            j = i + 2
            if toks[j].kind == 'ident':
                j += 1
            k = match_close(toks, j)
            i = k + 1
            if i < end and toks[i].text == ';':
                i += 1
        else:
            raise Undecided('extractor: unrecognised item start %r at offset %d' % (toks[i].text, toks[i].start))
    return items


class SourceFile:
    def __init__(self, path):
        # a path of the form `erased:<file>` (inside the repo: .../erased:src/async_vfs/x.rs) is read through rule R30 (tool/erase.py)
        self.erased = None
        d, b = os.path.split(path)
        if 'erased:' in path:
            path = path.replace('erased:', '', 1)
        self.path = path
        raw = open(path, encoding='utf-8').read()
        self.raw = raw
        self.src = strip_comments(raw)
        if path != os.path.join(d, b):
            from erase import erase
            self.src, self.erased = erase(self.src)
        try:
            self.toks = lex(self.src)
            self.items = parse_items(self.src, self.toks, 0, len(self.toks))
        except LexError as e:
            raise Undecided('lexer: %s in %s' % (e, path))

    def find(self, path_expr):
        """path_expr: 'struct X' | 'fn f' | 'impl A for B :: fn f' | 'trait T :: fn f' ...; several impl blocks may share a header"""
        segs = [s.strip() for s in re.split(r'\s+::\s+', path_expr.strip())]

        def match(items, seg):
            kind = re.match(r'[A-Za-z_]+', seg).group(0)
            hits = []
            for it in items:
                if it.kind in ('impl', 'trait') and kind == it.kind:
                    if norm(it.header) == norm(seg):
                        hits.append(it)
                elif it.kind == kind and it.kind not in ('impl', 'trait') and it.name == seg.split()[1]:
                    hits.append(it)
            return hits

        cands = [self.items]
        found = []
        for depth, seg in enumerate(segs):
            found = []
            for items in cands:
                found += match(items, seg)
            cands = [f.children for f in found]
        if len(found) != 1:
            raise Undecided('lost anchor: %r matches %d items in %s' % (path_expr, len(found), self.path))
        return found[0]

    def method_names(self, header):
        """sorted names of the functions of every impl / trait block with this header (the block's method list)"""
        names = []
        hit = False
        kind = re.match(r'[A-Za-z_]+', header).group(0)
        for it in self.items:
            if it.kind in ('impl', 'trait') and it.kind == kind and norm(it.header) == norm(header):
                hit = True
                names += [c.name for c in it.children if c.kind == 'fn']
        if not hit:
            raise Undecided('lost anchor: %r matches no block in %s' % (header, self.path))
        return sorted(names)

    def line_of(self, item):
        # strip_comments keeps every newline, so offsets in self.src map to the same line as in the raw file
        return self.src.count('\n', 0, item.start) + 1


def sha(text):
    return hashlib.sha256(text.encode()).hexdigest()[:16]
