#!/bin/bash
# usage: tryseed.sh <patch.diff> <PROP>...   applies patch to /repo, runs checks, reverts
P=$(realpath "$1"); shift
git -C /repo apply "$P" || exit 3
for id in "$@"; do /verif/check $id 2>&1 | grep -E "^(VIOLATION|UNDECIDED|KNOWN|property)" | cut -c1-400; echo "  exit=${PIPESTATUS[0]}"; done
git -C /repo checkout -- .
git -C /repo status --short | head -3
