#!/bin/bash
# usage: harmlessrun.sh <dir with patch.diff, meta.json> <out id>
# a behaviour-preserving edit: the suite must pass with it, and NO check may report a VIOLATION (exit 0 or 2 only);
# results under /verif/selftest/harmless/<out id>/
set -u
VH=${VERIF_HOME:-/verif}
SRC=$(realpath "$1"); ID=$2
OUT=/verif/selftest/harmless/$ID
mkdir -p "$OUT"
cp "$SRC/patch.diff" "$OUT/patch.diff"; cp "$SRC/meta.json" "$OUT/meta.json" 2>/dev/null
WT=$(mktemp -d /tmp/hr-XXXXXX)
git -C /repo worktree add -q --detach "$WT/repo" HEAD
( cd "$WT/repo" && git apply "$SRC/patch.diff" ) || { echo "patch does not apply" > "$OUT/checks.log"; git -C /repo worktree remove --force "$WT/repo"; rm -rf "$WT"; exit 3; }
mkdir -p "$WT/repo/target"
suite=$(cd "$WT/repo" && CARGO_TARGET_DIR="$WT/target" cargo test --workspace --no-fail-fast --offline 2>&1 | grep -E "^test result" | tr '\n' ' ')
echo "SUITE: $suite" > "$OUT/checks.log"
PIDS=$(python3 -c "import json; print(','.join(c['property_id'] for c in json.load(open('$VH/MANIFEST.json'))['checks']))")
o=$(VERIF_REPO="$WT/repo" VERIF_SCRATCH="$WT/scratch" $VH/check $PIDS 2>&1); rc=$?
echo "$o" | grep -E "^(VIOLATION|UNDECIDED|property|exit)" | cut -c1-260 >> "$OUT/checks.log"
RES=" worst_exit=$rc $(echo "$o" | grep -E '^exit ' | awk '{printf "%s:%s ", $2, $4}')"
git -C /repo worktree remove --force "$WT/repo" >/dev/null 2>&1; rm -rf "$WT"
echo "RESULT $ID$RES" >> "$OUT/checks.log"
echo "RESULT $ID$RES"
