"""Mechanical rewrite rules (DESIGN §3). Each rule is a text->text function over one item
(signature + body, or a whole struct/enum/type text); every application is counted and reported.
A rule never looks at contract text and never depends on local variable names."""
import re
from lexer import lex, match_close
from extract import Undecided, norm_sp

RULE_DOC = {}


def rule(name, doc):
    def deco(f):
        RULE_DOC[name] = doc
        f.rule_name = name
        REG[name] = f
        return f
    return deco


REG = {}


def toks_replace(text, edits):
    """edits: list of (start, end, replacement) on text; applied back to front."""
    for s, e, r in sorted(edits, key=lambda x: -x[0]):
        text = text[:s] + r + text[e:]
    return text


# ---------------------------------------------------------------------------------------------
@rule('R1', 'visibility modifiers removed (single-file crate; lets ensures mention private fields)')
def r1(text, ctx):
    toks = lex(text)
    edits = []
    i = 0
    while i < len(toks):
        t = toks[i]
        if t.kind == 'ident' and t.text == 'pub':
            end = t.end
            if i + 1 < len(toks) and toks[i + 1].text == '(':
                j = match_close(toks, i + 1)
                end = toks[j].end
                i = j
            edits.append((t.start, end, ''))
        i += 1
    return toks_replace(text, edits), len(edits)


@rule('R18', 'attributes (#[..]) dropped')
def r18(text, ctx):
    toks = lex(text)
    edits = []
    i = 0
    while i < len(toks):
        if toks[i].text == '#' and i + 1 < len(toks) and toks[i + 1].text in ('[', '!'):
            j = i + 1
            if toks[j].text == '!':
                j += 1
            if toks[j].text == '[':
                k = match_close(toks, j)
                edits.append((toks[i].start, toks[k].end, ''))
                i = k
        i += 1
    return toks_replace(text, edits), len(edits)


@rule('R3', "auto-trait / lifetime bounds removed inside dyn (`+ Send`, `+ Sync`, `+ Unpin`, `+ 'static`)")
def r3(text, ctx):
    n = 0
    def sub(m):
        nonlocal n
        n += 1
        return ''
    # only after a `dyn Trait<..>` head: handled textually, bounds are a closed list
    out = re.sub(r"\s*\+\s*(Send|Sync|Unpin|'static)\b", sub, text)
    return out, n


@rule('R13', '`s += e` on String -> `s.push_str(e)` (this is std AddAssign<&str> for String)')
def r13(text, ctx):
    # applies to statements `IDENT += EXPR;` or `IDENT += EXPR` before a closing brace, where IDENT is declared `let mut IDENT = <String expr>`;
    # the unit file lists the String-typed locals through rulearg R13 <ident>
    names = ctx.rule_args.get('R13', [])
    n = 0
    for name in names:
        toks = lex(text)
        edits = []
        for i, t in enumerate(toks):
            if t.kind == 'ident' and t.text == name and i + 1 < len(toks) and toks[i + 1].text == '+=' and (i == 0 or toks[i - 1].text in (';', '{', '}')):
                # expression extends to ';' or to the closing '}' at depth 0
                depth = 0
                j = i + 2
                while j < len(toks):
                    x = toks[j].text
                    if x in ('(', '[', '{'):
                        depth += 1
                    elif x in (')', ']', '}'):
                        if depth == 0:
                            break
                        depth -= 1
                    elif x == ';' and depth == 0:
                        break
                    j += 1
                expr = text[toks[i + 2].start:toks[j - 1].end]
                edits.append((t.start, toks[j - 1].end, '%s.push_str(%s)' % (name, expr)))
        n += len(edits)
        text = toks_replace(text, edits)
    return text, n


def find_for_loops(toks):
    """yield (for_idx, in_idx, brace_open_idx, brace_close_idx) for every `for PAT in EXPR { .. }`"""
    out = []
    for i, t in enumerate(toks):
        if t.kind == 'ident' and t.text == 'for' and (i == 0 or toks[i - 1].text in (';', '{', '}', ')')) :
            # find `in` at depth 0
            depth = 0
            j = i + 1
            in_idx = None
            while j < len(toks):
                x = toks[j].text
                if x in ('(', '['):
                    j = match_close(toks, j)
                elif toks[j].kind == 'ident' and x == 'in':
                    in_idx = j
                    break
                j += 1
            if in_idx is None:
                continue
            j = in_idx + 1
            while j < len(toks) and toks[j].text != '{':
                if toks[j].text in ('(', '['):
                    j = match_close(toks, j)
                j += 1
            k = match_close(toks, j)
            out.append((i, in_idx, j, k))
    return out


@rule('R6', '`for x in S.split(C) { B }` -> indexed while over verif_split(S, C) (drops laziness of Split; verif_split is external_body with assumed spec)')
def r6(text, ctx):
    n = 0
    while True:
        toks = lex(text)
        done = True
        for (fi, ii, bo, bc) in find_for_loops(toks):
            expr = text[toks[ii + 1].start:toks[bo - 1].end]
            m = re.match(r'^(.*)\.split\((.*)\)$', expr.strip(), re.S)
            if not m:
                continue
            pat = text[toks[fi + 1].start:toks[ii - 1].end]
            recv, sep = m.group(1).strip(), m.group(2).strip()
            body_inner = text[toks[bo].end:toks[bc].start]
            k = n
            new = ('let verif_parts_%d = verif_split(%s, %s);\n        let mut verif_i_%d: usize = 0;\n        while verif_i_%d < verif_parts_%d.len() {\n            let %s = verif_parts_%d[verif_i_%d];\n            verif_i_%d += 1;%s}'
                   % (k, recv, sep, k, k, k, pat, k, k, k, body_inner))
            text = text[:toks[fi].start] + new + text[toks[bc].end:]
            n += 1
            done = False
            break
        if done:
            break
    return text, n


@rule('R12', '`for x in V { B }` over a Vec -> indexed while (needed when B contains `continue`, or to carry an invariant); rulearg R12 <vec expr>')
def r12(text, ctx):
    n = 0
    targets = ctx.rule_args.get('R12', [])
    while True:
        toks = lex(text)
        done = True
        for (fi, ii, bo, bc) in find_for_loops(toks):
            expr = text[toks[ii + 1].start:toks[bo - 1].end].strip()
            if norm_sp(expr) not in [norm_sp(t) for t in targets]:
                continue
            pat = text[toks[fi + 1].start:toks[ii - 1].end]
            body_inner = text[toks[bo].end:toks[bc].start]
            k = 'v%d' % n
            vec = expr[1:].strip() if expr.startswith('&') else expr
            new = ('let mut verif_i_%s: usize = 0;\n        while verif_i_%s < %s.len() {\n            let %s = %s%s[verif_i_%s]%s;\n            verif_i_%s += 1;%s}'
                   % (k, k, vec, pat, '&' if expr.startswith('&') else '', vec, k, '' if expr.startswith('&') else '', k, body_inner))
            text = text[:toks[fi].start] + new + text[toks[bc].end:]
            n += 1
            done = False
            break
        if done:
            break
    return text, n


@rule('R14', '`"lit".into()` at type String -> `"lit".to_string()` (From<&str> for String is to_owned)')
def r14(text, ctx):
    n = 0
    def sub(m):
        nonlocal n
        n += 1
        return m.group(1) + '.to_string()'
    out = re.sub(r'("(?:[^"\\]|\\.)*")\s*\.into\(\)', sub, text)
    return out, n


@rule('R7', '`format!("..{}..", a, b)` with only `{}` placeholders of string-like args -> verif_concat(&[pieces]) (assumed spec: concatenation)')
def r7(text, ctx):
    n = 0
    while True:
        toks = lex(text)
        hit = None
        for i, t in enumerate(toks):
            if t.kind == 'ident' and t.text == 'format' and i + 2 < len(toks) and toks[i + 1].text == '!' and toks[i + 2].text == '(':
                hit = i
                break
        if hit is None:
            break
        i = hit
        k = match_close(toks, i + 2)
        # split args at depth-0 commas
        args = []
        start = i + 3
        depth = 0
        j = start
        while j < k:
            x = toks[j].text
            if x in ('(', '[', '{'):
                j = match_close(toks, j)
            elif x == ',':
                args.append((start, j))
                start = j + 1
            j += 1
        if start < k:
            args.append((start, k))
        argtxt = [text[toks[a].start:toks[b - 1].end] for a, b in args if b > a]
        lit = argtxt[0]
        if not (lit.startswith('"') and lit.endswith('"')):
            raise Undecided('R7: format! without literal format string')
        fmt = lit[1:-1]
        pieces = fmt.split('{}')
        if '{' in ''.join(pieces) or len(pieces) - 1 != len(argtxt) - 1:
            raise Undecided('R7: unsupported format string %s' % lit)
        parts = []
        for idx, p in enumerate(pieces):
            if p:
                parts.append('"%s"' % p)
            if idx < len(argtxt) - 1:
                a = argtxt[idx + 1].strip()
                parts.append('verif_as_str(%s)' % a)
        new = 'verif_concat%d(%s)' % (len(parts), ', '.join(parts))
        text = text[:toks[i].start] + new + text[toks[k].end:]
        n += 1
    return text, n


def apply_rules(names, text, ctx):
    fired = {}
    for nm in names:
        if nm not in REG:
            raise Undecided('unknown rule %s' % nm)
        text, c = REG[nm](text, ctx)
        if c:
            fired[nm] = fired.get(nm, 0) + c
    return text, fired


RESIDUES = [
    (r'\bformat!\s*\(', 'format! left over'),
    (r'\.await\b', '.await left over'),
    (r'\bself\.handle\b', 'self.handle left over (R4)'),
    (r'\bself\.fs\.fs\b', 'self.fs.fs left over (R5)'),
    (r'\bPin\s*<', 'Pin< left over'),
    (r'\bdyn\b[^;{>]*\+', 'dyn with + bound left over'),
]


def check_residue(text, where):
    for pat, msg in RESIDUES:
        if re.search(pat, text):
            raise Undecided('residue after rewriting in %s: %s' % (where, msg))


@rule('R22', '`std::io::Error::new(K, M)` / `io::Error::new(K, M)` -> `verif_io_error_new(K, M)` (external_body wrapper around the same call; Verus cannot declare the generic bound `Into<Box<dyn Error + Send + Sync>>`)')
def r22(text, ctx):
    n = 0
    def sub(m):
        nonlocal n
        n += 1
        return 'verif_io_error_new('
    out = re.sub(r'\b(?:std::)?io::Error::new\s*\(', sub, text)
    return out, n
