"""Mechanical rewrite rules (DESIGN §3). Each rule is a text->text function over one item
(signature + body, or a whole struct/enum/type text); every application is counted and reported.
A rule never looks at contract text and never depends on local variable names."""
import re
from lexer import lex, match_close
from extract import Undecided, norm_sp

RULE_DOC = {'R21': 'a std trait impl (`impl Read/Seek/Write/Drop/Iterator for T`) is emitted as an inherent `impl T` (item directive `as`), associated types `Self::X` substituted from the impl; drops trait dispatch and provided methods'}


def rule(name, doc):
    def deco(f):
        RULE_DOC[name] = doc
        f.rule_name = name
        REG[name] = f
        return f
    return deco


REG = {}


def toks_replace(text, edits):
    """edits: list of (start, end, replacement) on text; applied back to front."""
    for s, e, r in sorted(edits, key=lambda x: -x[0]):
        text = text[:s] + r + text[e:]
    return text


# ---------------------------------------------------------------------------------------------
@rule('R1', 'visibility modifiers removed (single-file crate; lets ensures mention private fields)')
def r1(text, ctx):
    toks = lex(text)
    edits = []
    i = 0
    while i < len(toks):
        t = toks[i]
        if t.kind == 'ident' and t.text == 'pub':
            end = t.end
            if i + 1 < len(toks) and toks[i + 1].text == '(':
                j = match_close(toks, i + 1)
                end = toks[j].end
                i = j
            edits.append((t.start, end, ''))
        i += 1
    return toks_replace(text, edits), len(edits)


@rule('R18', 'attributes (#[allow], #[cfg], #[async_trait] ..) dropped; #[derive(..)] kept')
def r18(text, ctx):
    toks = lex(text)
    edits = []
    i = 0
    while i < len(toks):
        if toks[i].text == '#' and i + 1 < len(toks) and toks[i + 1].text in ('[', '!'):
            j = i + 1
            if toks[j].text == '!':
                j += 1
            if toks[j].text == '[':
                k = match_close(toks, j)
                if toks[j + 1].text != 'derive':
                    edits.append((toks[i].start, toks[k].end, ''))
                i = k
        i += 1
    return toks_replace(text, edits), len(edits)


@rule('R3', "auto-trait / lifetime bounds removed inside dyn (`+ Send`, `+ Sync`, `+ Unpin`, `+ 'static`)")
def r3(text, ctx):
    n = 0
    def sub(m):
        nonlocal n
        n += 1
        return ''
    # only after a `dyn Trait<..>` head: handled textually, bounds are a closed list
    out = re.sub(r"\s*\+\s*(Send|Sync|Unpin|'static)\b", sub, text)
    return out, n


@rule('R13', '`s += e` on String -> `s.push_str(e)` (this is std AddAssign<&str> for String)')
def r13(text, ctx):
    # applies to statements `IDENT += EXPR;` or `IDENT += EXPR` before a closing brace, where IDENT is declared `let mut IDENT = <String expr>`;
    # the unit file lists the String-typed locals through rulearg R13 <ident>
    names = ctx.rule_args.get('R13', [])
    n = 0
    for name in names:
        toks = lex(text)
        edits = []
        for i, t in enumerate(toks):
            if t.kind == 'ident' and t.text == name and i + 1 < len(toks) and toks[i + 1].text == '+=' and (i == 0 or toks[i - 1].text in (';', '{', '}')):
                # expression extends to ';' or to the closing '}' at depth 0
                depth = 0
                j = i + 2
                while j < len(toks):
                    x = toks[j].text
                    if x in ('(', '[', '{'):
                        depth += 1
                    elif x in (')', ']', '}'):
                        if depth == 0:
                            break
                        depth -= 1
                    elif x == ';' and depth == 0:
                        break
                    j += 1
                expr = text[toks[i + 2].start:toks[j - 1].end]
                semi = '' if (j < len(toks) and toks[j].text == ';') else ';'
                edits.append((t.start, toks[j - 1].end, '%s.push_str(%s)%s' % (name, expr, semi)))
        n += len(edits)
        text = toks_replace(text, edits)
    return text, n


def find_for_loops(toks):
    """yield (for_idx, in_idx, brace_open_idx, brace_close_idx) for every `for PAT in EXPR { .. }`"""
    out = []
    for i, t in enumerate(toks):
        if t.kind == 'ident' and t.text == 'for' and (i == 0 or toks[i - 1].text in (';', '{', '}', ')')) :
            # find `in` at depth 0
            depth = 0
            j = i + 1
            in_idx = None
            while j < len(toks):
                x = toks[j].text
                if x in ('(', '['):
                    j = match_close(toks, j)
                elif toks[j].kind == 'ident' and x == 'in':
                    in_idx = j
                    break
                j += 1
            if in_idx is None:
                continue
            j = in_idx + 1
            while j < len(toks) and toks[j].text != '{':
                if toks[j].text in ('(', '['):
                    j = match_close(toks, j)
                j += 1
            k = match_close(toks, j)
            out.append((i, in_idx, j, k))
    return out


@rule('R6', '`for x in S.split(C) { B }` -> indexed while over verif_split(S, C) (drops laziness of Split; verif_split is external_body with assumed spec)')
def r6(text, ctx):
    n = 0
    while True:
        toks = lex(text)
        done = True
        for (fi, ii, bo, bc) in find_for_loops(toks):
            expr = text[toks[ii + 1].start:toks[bo - 1].end]
            m = re.match(r'^(.*)\.split\((.*)\)$', expr.strip(), re.S)
            if not m:
                continue
            pat = text[toks[fi + 1].start:toks[ii - 1].end]
            recv, sep = m.group(1).strip(), m.group(2).strip()
            body_inner = text[toks[bo].end:toks[bc].start]
            k = n
            new = ('let verif_parts_%d = verif_split(%s, %s);\n        let mut verif_i_%d: usize = 0;\n        while verif_i_%d < verif_parts_%d.len() {\n            let %s = verif_parts_%d[verif_i_%d];\n            verif_i_%d += 1;%s}'
                   % (k, recv, sep, k, k, k, pat, k, k, k, body_inner))
            text = text[:toks[fi].start] + new + text[toks[bc].end:]
            n += 1
            done = False
            break
        if done:
            break
    return text, n


@rule('R12', '`for x in V { B }` over a Vec -> indexed while (needed when B contains `continue`, or to carry an invariant); rulearg R12 <vec expr>')
def r12(text, ctx):
    n = 0
    targets = ctx.rule_args.get('R12', [])
    while True:
        toks = lex(text)
        done = True
        for (fi, ii, bo, bc) in find_for_loops(toks):
            expr = text[toks[ii + 1].start:toks[bo - 1].end].strip()
            if norm_sp(expr) not in [norm_sp(t) for t in targets]:
                continue
            pat = text[toks[fi + 1].start:toks[ii - 1].end]
            body_inner = text[toks[bo].end:toks[bc].start]
            k = 'v%d' % n
            vec = expr[1:].strip() if expr.startswith('&') else expr
            new = ('let mut verif_i_%s: usize = 0;\n        while verif_i_%s < %s.len() {\n            let %s = %s%s[verif_i_%s]%s;\n            verif_i_%s += 1;%s}'
                   % (k, k, vec, pat, '&' if expr.startswith('&') else '', vec, k, '' if expr.startswith('&') else '', k, body_inner))
            text = text[:toks[fi].start] + new + text[toks[bc].end:]
            n += 1
            done = False
            break
        if done:
            break
    return text, n


@rule('R12b', '`for x in E { B }` over an iterator -> `let mut verif_it_k = E; loop { match verif_it_k.next() { Some(x) => { B }, None => { break; } } }` (the definition of `for`; keeps the '
              'iterator in scope so that facts about what it has yielded survive the loop); rulearg R12b <loop variable>')
def r12b(text, ctx):
    n = 0
    targets = ctx.rule_args.get('R12b', [])
    while True:
        toks = lex(text)
        done = True
        for (fi, ii, bo, bc) in find_for_loops(toks):
            pat = text[toks[fi + 1].start:toks[ii - 1].end].strip()
            hit = [t for t in targets if t.split()[0] == pat]
            if not hit:
                continue
            # optional second word: the call text, e.g. `next(world)` for an iterator whose next reaches a filesystem
            call = hit[0].split()[1] if len(hit[0].split()) > 1 else 'next()'
            expr = text[toks[ii + 1].start:toks[bo - 1].end].strip()
            n += 1
            body_inner = text[toks[bo].start:toks[bc].end]
            new = ('let mut verif_it_%d = %s;\n        loop {\n            match verif_it_%d.CALL {\n                Some(%s) => %s,\n                None => { break; }\n            }\n        }'
                   % (n, expr, n, pat, body_inner)).replace('CALL', call)
            text = text[:toks[fi].start] + new + text[toks[bc].end:]
            done = False
            break
        if done:
            break
    return text, n


@rule('R14', '`"lit".into()` at type String -> `"lit".to_string()` (From<&str> for String is to_owned)')
def r14(text, ctx):
    n = 0
    def sub(m):
        nonlocal n
        n += 1
        return m.group(1) + '.to_string()'
    out = re.sub(r'("(?:[^"\\]|\\.)*")\s*\.into\(\)', sub, text)
    return out, n


@rule('R7', '`format!("..{}..", a, b)` with only `{}` placeholders of string-like args -> verif_concat(&[pieces]) (assumed spec: concatenation)')
def r7(text, ctx):
    n = 0
    while True:
        toks = lex(text)
        hit = None
        for i, t in enumerate(toks):
            if t.kind == 'ident' and t.text == 'format' and i + 2 < len(toks) and toks[i + 1].text == '!' and toks[i + 2].text == '(':
                hit = i
                break
        if hit is None:
            break
        i = hit
        k = match_close(toks, i + 2)
        # split args at depth-0 commas
        args = []
        start = i + 3
        depth = 0
        j = start
        while j < k:
            x = toks[j].text
            if x in ('(', '[', '{'):
                j = match_close(toks, j)
            elif x == ',':
                args.append((start, j))
                start = j + 1
            j += 1
        if start < k:
            args.append((start, k))
        argtxt = [text[toks[a].start:toks[b - 1].end] for a, b in args if b > a]
        lit = argtxt[0]
        if not (lit.startswith('"') and lit.endswith('"')):
            raise Undecided('R7: format! without literal format string')
        fmt = lit[1:-1]
        pieces = fmt.split('{}')
        if '{' in ''.join(pieces) or len(pieces) - 1 != len(argtxt) - 1:
            raise Undecided('R7: unsupported format string %s' % lit)
        parts = []
        for idx, p in enumerate(pieces):
            if p:
                parts.append('"%s"' % p)
            if idx < len(argtxt) - 1:
                a = argtxt[idx + 1].strip()
                parts.append('&*(%s)' % a)
        new = 'verif_concat%d(%s)' % (len(parts), ', '.join(parts))
        text = text[:toks[i].start] + new + text[toks[k].end:]
        n += 1
    return text, n


def apply_rules(names, text, ctx):
    fired = {}
    for nm in names:
        if nm not in REG:
            raise Undecided('unknown rule %s' % nm)
        text, c = REG[nm](text, ctx)
        if c:
            fired[nm] = fired.get(nm, 0) + c
    return text, fired


RESIDUES = [
    (r'\bformat!\s*\(', 'format! left over'),
    (r'\.await\b', '.await left over'),
    (r'\bself\.handle\b', 'self.handle left over (R4)'),
    (r'\bself\.fs\.fs\b', 'self.fs.fs left over (R5)'),
    (r'\bPin\s*<', 'Pin< left over'),
    (r'\bdyn\b[^;{>]*\+', 'dyn with + bound left over'),
]


def check_residue(text, where):
    for pat, msg in RESIDUES:
        if re.search(pat, text):
            raise Undecided('residue after rewriting in %s: %s' % (where, msg))


@rule('R22', '`std::io::Error::new(K, M)` / `io::Error::new(K, M)` -> `verif_io_error_new(K, M)` (external_body wrapper around the same call; Verus cannot declare the generic bound `Into<Box<dyn Error + Send + Sync>>`)')
def r22(text, ctx):
    n = 0
    def sub(m):
        nonlocal n
        n += 1
        return 'verif_io_error_new('
    out = re.sub(r'\b(?:std::)?io::Error::new\s*\(', sub, text)
    return out, n


@rule('R2', '`fn f(mut self, ..) { B }` -> `fn f(self, ..) { let mut self_ = self; B[self -> self_] }` (desugaring; Verus rejects `mut self`)')
def r2(text, ctx):
    if '\x00' not in text:
        return text, 0
    sig, body = text.split('\x00')
    m = re.search(r'\(\s*mut\s+self\b', sig)
    if not m:
        return text, 0
    sig = sig[:m.start()] + '(self' + sig[m.end():]
    toks = lex(body)
    edits = []
    for t in toks:
        if t.kind == 'ident' and t.text == 'self':
            edits.append((t.start, t.end, 'self_'))
    body = toks_replace(body, edits)
    body = '{ let mut self_ = self;' + body[1:]
    return sig + '\x00' + body, 1


@rule('R23', '`X.into()` where X is a parameter declared `impl Into<String>` -> `verif_into_string(X)` (external_body wrapper around the same call with the assumed spec `r@ == into_string_view(X)`)')
def r23(text, ctx):
    if '\x00' not in text:
        return text, 0
    sig, body = text.split('\x00')
    names = re.findall(r'\b([A-Za-z_][A-Za-z0-9_]*)\s*:\s*impl\s+Into\s*<\s*String\s*>', sig)
    n = 0
    for nm in names:
        body, c = re.subn(r'\b%s\s*\.\s*into\s*\(\s*\)' % re.escape(nm), 'verif_into_string(%s)' % nm, body)
        n += c
    return sig + '\x00' + body, n


@rule('R24', '`S[range]` on a String-typed local S -> `S.as_str()[range]` (this is the body of std `impl<I: SliceIndex<str>> Index<I> for String`); item-level rulearg R24 <ident>')
def r24(text, ctx):
    names = ctx.rule_args.get('R24', [])
    n = 0
    for nm in names:
        toks = lex(text)
        edits = []
        for i, t in enumerate(toks):
            if t.kind == 'ident' and t.text == nm and i + 1 < len(toks) and toks[i + 1].text == '[' and (i == 0 or toks[i - 1].text not in ('.', '::')):
                k = match_close(toks, i + 1)
                inner = text[toks[i + 1].end:toks[k].start]
                if '..' in inner:
                    edits.append((t.end, t.end, '.as_str()'))
        n += len(edits)
        text = toks_replace(text, edits)
    return text, n


@rule('R31', '`C += 1` on the u64 entry counter C (rulearg R31 <ident>) -> `C = verif_count_succ(C)` (external_body wrapper around the same addition with the assumed spec '
             '`r == c + 1`: machine arithmetic treated as mathematical for a counter that is incremented once per copied directory entry and cannot reach 2^64)')
def r31(text, ctx):
    names = ctx.rule_args.get('R31', [])
    n = 0
    for nm in names:
        for lhs in ('(*%s)' % nm, nm):
            pat = re.compile(r'(?<![A-Za-z0-9_\.])' + re.escape(lhs) + r'\s*\+=\s*1\s*;')
            text, k = pat.subn('%s = verif_count_succ(%s);' % (lhs, lhs), text)
            n += k
    return text, n


@rule('R32', '`P.len()` on a `&str` local P (rulearg R32 <ident>) -> `verif_str_len(P)` (external_body wrapper around the same call with the assumed spec '
             '`r == encode_utf8(P@).len()`: std `str::len` is the length in bytes; vstd specifies it for ASCII strings only)')
def r32(text, ctx):
    names = ctx.rule_args.get('R32', [])
    n = 0
    for nm in names:
        pat = re.compile(r'(?<![A-Za-z0-9_\.])' + re.escape(nm) + r'\.len\(\)')
        text, k = pat.subn('verif_str_len(%s)' % nm, text)
        n += k
    return text, n


@rule('R25', '`X.rsplitn(N, C)` -> `verif_rsplitn(&X, N, C)` returning std::vec::IntoIter<&str> (drops laziness of RSplitN; external_body with assumed spec rsplitn_spec)')
def r25(text, ctx):
    n = 0
    while True:
        toks = lex(text)
        hit = None
        for i, t in enumerate(toks):
            if t.kind == 'ident' and t.text == 'rsplitn' and i >= 2 and toks[i - 1].text == '.' and toks[i + 1].text == '(' and toks[i - 2].kind == 'ident':
                hit = i
                break
        if hit is None:
            break
        i = hit
        k = match_close(toks, i + 1)
        recv = toks[i - 2]
        args = text[toks[i + 1].end:toks[k].start]
        text = text[:recv.start] + 'verif_rsplitn(&%s, %s)' % (recv.text, args) + text[toks[k].end:]
        n += 1
    return text, n


@rule('R3b', 'handle types: `Box<dyn SeekAndRead + Send>` / `Box<dyn SeekAndWrite + Send>` -> `Box<T>` with T given by rulearg `R3b Trait=Type` (drops dynamic dispatch on handles)')
def r3b(text, ctx):
    n = 0
    for arg in ctx.rule_args.get('R3b', []):
        tr, ty = arg.split('=')
        text, c = re.subn(r'Box\s*<\s*dyn\s+%s\s*(?:\+\s*Send\s*)?>' % re.escape(tr), 'Box<%s>' % ty, text)
        n += c
    return text, n


@rule('R8', 'the type `Box<dyn Iterator<Item = T> + Send>` -> `std::vec::IntoIter<T>`; `Box::new(E.into_iter())` -> `E.into_iter()` (drops laziness / boxing of listings)')
def r8(text, ctx):
    n = 0
    # boxing of an iterator as the trait object is the identity once the type is the concrete vector iterator
    text, c = re.subn(r'\.map\(\s*\|\s*(\w+)\s*\|\s*Box::new\(\s*\1\s*\)\s+as\s+Box\s*<\s*dyn\s+Iterator\s*<[^>]*>\s*(?:\+\s*Send\s*)?>\s*\)', '', text)
    n += c
    # `|it| it.map(f)` on a listing -> `|it| verif_iter_map(it, f)`
    while True:
        toks = lex(text)
        hit = None
        for i, t in enumerate(toks):
            if t.text == '|' and i + 6 < len(toks) and toks[i + 1].kind == 'ident' and toks[i + 2].text == '|' and toks[i + 3].kind == 'ident' and toks[i + 3].text == toks[i + 1].text \
                    and toks[i + 4].text == '.' and toks[i + 5].text == 'map' and toks[i + 6].text == '(':
                k = match_close(toks, i + 6)
                inner = text[toks[i + 6].end:toks[k].start]
                hit = (toks[i + 3].start, toks[k].end, 'verif_iter_map(%s, %s)' % (toks[i + 1].text, inner.strip()))
                break
        if not hit:
            break
        text = text[:hit[0]] + hit[2] + text[hit[1]:]
        n += 1
    text, c = re.subn(r'Box\s*<\s*dyn\s+Iterator\s*<\s*Item\s*=\s*([A-Za-z0-9_]+)\s*>\s*(?:\+\s*Send\s*)?>', r'std::vec::IntoIter<\1>', text)
    n += c
    while True:
        toks = lex(text)
        hit = None
        for i, t in enumerate(toks):
            if t.kind == 'ident' and t.text == 'Box' and i + 3 < len(toks) and toks[i + 1].text == '::' and toks[i + 2].text == 'new' and toks[i + 3].text == '(':
                k = match_close(toks, i + 3)
                inner = text[toks[i + 3].end:toks[k].start].strip().rstrip(',').strip()
                hs = [a.split()[1] for a in ctx.rule_args.get('R8', []) if a.startswith('hashset ')]
                mhs = re.match(r'^([A-Za-z_][A-Za-z0-9_]*)\.into_iter\(\)$', inner)
                if mhs and mhs.group(1) in hs:
                    hit = (i, k, 'verif_set_into_vec_iter(%s)' % mhs.group(1))
                    break
                if re.search(r'\.into_iter\(\)$', inner):
                    hit = (i, k, inner)
                    break
                if re.search(r'\.read_dir\((world)?\)\?$', inner):
                    hit = (i, k, inner)
                    break
                it = lex(inner)
                # E.map(CLOSURE) as the last call of the chain
                if it and it[-1].text == ')':
                    depth = 0
                    o = None
                    for q in range(len(it) - 1, -1, -1):
                        if it[q].text == ')':
                            depth += 1
                        elif it[q].text == '(':
                            depth -= 1
                            if depth == 0:
                                o = q
                                break
                    if o is not None and o >= 2 and it[o - 1].text == 'map' and it[o - 2].text == '.' and it[o + 1].text in ('|', 'move', '||'):
                        recv = inner[:it[o - 2].start].strip()
                        clo = inner[it[o].end:it[-1].start].strip()
                        hit = (i, k, 'verif_iter_map(%s, %s)' % (recv, clo))
                        break
        if not hit:
            break
        i, k, inner = hit
        text = text[:toks[i].start] + inner + text[toks[k].end:]
        n += 1
    return text, n


def r4_store_methods(ctx):
    """fixpoint: methods (by name) of the unit's sources that touch the lock cell, directly or through self.<m>()"""
    fns = ctx.source_fns
    direct = set(nm for nm, body in fns.items() if re.search(r'\bself\s*\.\s*(handle|fs)\s*\.\s*(read|write|clone)\s*\(', body or ''))
    changed = True
    while changed:
        changed = False
        for nm, body in fns.items():
            if nm in direct or not body:
                continue
            for d in list(direct):
                if re.search(r'\bself\s*\.\s*%s\s*\(' % re.escape(d), body):
                    direct.add(nm)
                    changed = True
                    break
    return direct


@rule('R4', 'lock cell store-passing: methods that touch `self.handle` / `self.fs` get `st: &mut <Impl>`; `self.handle.read().unwrap()` -> `(&*st)`, `.write().unwrap()` -> `(&mut *st)`, '
            '`self.handle.clone()` -> `LockCell`, `self.m(a)` -> `self.m(st, a)` for such methods (drops lock acquisition, poisoning, Arc identity, concurrency); rulearg R4 <ImplType>')
def r4(text, ctx):
    if '\x00' not in text:
        return text, 0
    impl_ty = ctx.rule_args.get('R4', ['MemoryFsImpl'])[0]
    sig, body = text.split('\x00')
    n = 0
    methods = r4_store_methods(ctx)
    m = re.search(r'\bfn\s+([A-Za-z0-9_]+)', sig)
    name = m.group(1)
    touches = name in methods and re.search(r'\(\s*&(?:\s*mut)?\s*self\b', sig)
    if touches:
        sig, c = re.subn(r'\(\s*(&(?:\s*mut)?\s*self)\s*(,?)', lambda mm: '(%s, st: &mut %s%s' % (mm.group(1), impl_ty, ', ' if mm.group(2) else ''), sig, count=1)
        n += c
    body, c = re.subn(r'\bself\s*\.\s*(?:handle|fs)\s*\.\s*read\s*\(\s*\)\s*\.\s*unwrap\s*\(\s*\)', '(&*st)', body)
    n += c
    body, c = re.subn(r'\bself\s*\.\s*(?:handle|fs)\s*\.\s*write\s*\(\s*\)\s*\.\s*unwrap\s*\(\s*\)', '(&mut *st)', body)
    n += c
    body, c = re.subn(r'\bself\s*\.\s*(?:handle|fs)\s*\.\s*clone\s*\(\s*\)', 'LockCell', body)
    n += c
    for d in sorted(methods):
        body, c = re.subn(r'\bself\s*\.\s*%s\s*\(\s*\)' % re.escape(d), 'self.%s(st)' % d, body)
        n += c
        body, c = re.subn(r'\bself\s*\.\s*%s\s*\((?!st\b)' % re.escape(d), 'self.%s(st, ' % d, body)
        n += c
    return sig + '\x00' + body, n


@rule('R19', '`let X: Vec<_> = M.iter().filter_map(|PAT| { B }).collect();` -> `let mut X = Vec::new(); for PAT in M.iter() { if let Some(v) = LIFTED(args) { X.push(v); } }` '
             'with the closure body B lambda-lifted verbatim into a sibling function (captured variables become parameters, by-mut captures are dereferenced); '
             'ruleargs: `R19 sig <fn signature>`, `R19 call <call expr>`, `R19 deref <ident>` (definition of filter_map + collect; Verus rejects closures capturing &mut)')
def r19(text, ctx):
    if '\x00' not in text:
        return text, 0
    args = ctx.rule_args.get('R19', [])
    sigs = [a[4:].strip() for a in args if a.startswith('sig ')]
    calls = [a[5:].strip() for a in args if a.startswith('call ')]
    derefs = [a[6:].strip() for a in args if a.startswith('deref ')]
    if not sigs:
        return text, 0
    sig, body = text.split('\x00')
    toks = lex(body)
    n = 0
    for i, t in enumerate(toks):
        if t.kind == 'ident' and t.text == 'filter_map' and toks[i - 1].text == '.' and toks[i + 1].text == '(':
            close = match_close(toks, i + 1)
            # must be followed by .collect()
            if not (toks[close + 1].text == '.' and toks[close + 2].text == 'collect'):
                raise Undecided('R19: filter_map not followed by collect')
            # statement start: scan back to `let`
            j = i
            while j >= 0 and not (toks[j].kind == 'ident' and toks[j].text == 'let'):
                j -= 1
            if j < 0:
                raise Undecided('R19: no let')
            name = toks[j + 1].text
            # receiver: from after '=' to the '.' before filter_map
            k = j
            while toks[k].text != '=':
                k += 1
            recv = body[toks[k + 1].start:toks[i - 1].start].strip()
            # closure: |PAT| { B }
            c0 = i + 2
            if toks[c0].text != '|':
                raise Undecided('R19: closure expected')
            c1 = c0 + 1
            while toks[c1].text != '|':
                if toks[c1].text in ('(', '['):
                    c1 = match_close(toks, c1)
                c1 += 1
            pat = body[toks[c0].end:toks[c1].start].strip()
            if toks[c1 + 1].text != '{':
                raise Undecided('R19: block closure expected')
            b1 = match_close(toks, c1 + 1)
            cbody = body[toks[c1 + 1].start:toks[b1].end]
            # statement end ';'
            e = close
            while toks[e].text != ';':
                e += 1
            for d in derefs:
                ct = lex(cbody)
                cbody = toks_replace(cbody, [(x.start, x.end, '(*%s)' % d) for x in ct if x.kind == 'ident' and x.text == d])
            lifted_name = re.search(r'fn\s+([A-Za-z0-9_]+)', sigs[0]).group(1)
            ctx.lifted[lifted_name] = (sigs[0], cbody)
            elem = re.search(r'->\s*Option\s*<(.*)>\s*$', sigs[0].strip()).group(1).strip()
            new = ('let mut %s: Vec<%s> = Vec::new();\n        for %s in %s {\n            if let Some(verif_item) = %s { %s.push(verif_item); }\n        }'
                   % (name, elem, pat, recv, calls[0], name))
            body = body[:toks[j].start] + new + body[toks[e].end:]
            n += 1
            break
    return sig + '\x00' + body, n


_R5_CACHE = {}
_R5_ARITY = {}


def r5_world_methods(ctx):
    """names of methods that (transitively) call into `self.fs.fs` in the files listed by rulearg `R5 files ...`"""
    import os
    from extract import SourceFile
    files = []
    for a in ctx.rule_args.get('R5', []):
        if a.startswith('files '):
            files += a.split()[1:]
    key = (ctx.repo, tuple(files), tuple(sorted(a for a in ctx.rule_args.get('R5', []) if a.startswith('pure '))))
    ctx.r5_key = key
    if key in _R5_CACHE:
        return _R5_CACHE[key]
    fns = {}
    arities = {}
    for f in files:
        sf = SourceFile(os.path.join(ctx.repo, f))

        def walk(items):
            for it in items:
                if it.kind == 'fn':
                    fns[it.name] = fns.get(it.name, '') + (it.body or '')
                    st = lex(it.sig)
                    o = next(i for i, t in enumerate(st) if t.text == '(')
                    c = match_close(st, o)
                    # count params other than the receiver
                    depth = 0
                    params = []
                    cur = []
                    for t in st[o + 1:c]:
                        if t.text in ('(', '[', '<'):
                            depth += 1
                        elif t.text in (')', ']', '>'):
                            depth -= 1
                        if t.text == ',' and depth == 0:
                            params.append(cur)
                            cur = []
                        else:
                            cur.append(t.text)
                    if cur:
                        params.append(cur)
                    k = len([p_ for p_ in params if 'self' not in p_[:3]])
                    arities.setdefault(it.name, set()).add(k)
                walk(it.children)
        walk(sf.items)
    _R5_ARITY[key] = arities
    pure = set()
    for a in ctx.rule_args.get('R5', []):
        if a.startswith('pure '):
            pure.update(a.split()[1:])
    direct = set(nm for nm, body in fns.items() if nm not in pure and re.search(r'\bself\s*\.\s*fs\s*\.\s*fs\s*\.', body))
    changed = True
    while changed:
        changed = False
        for nm, body in fns.items():
            if nm in direct or nm in pure:
                continue
            for d in direct:
                if re.search(r'\.\s*%s\s*\(' % re.escape(d), body):
                    direct.add(nm)
                    changed = True
                    break
    _R5_CACHE[key] = direct
    return direct


@rule('R10', '`RECV.map(|p| E).unwrap_or(D)` where E calls a filesystem method -> `match RECV { Ok(p) => E, Err(_) => D }` (definition of the combinators; a closure cannot take `world`)')
def r10(text, ctx):
    if '\x00' not in text:
        return text, 0
    sig, body = text.split('\x00')
    methods = r5_world_methods(ctx)
    n = 0
    while True:
        toks = lex(body)
        hit = None
        for i, t in enumerate(toks):
            if t.kind == 'ident' and t.text == 'map' and toks[i - 1].text == '.' and toks[i + 1].text == '(' and toks[i + 2].text == '|':
                close = match_close(toks, i + 1)
                if not (toks[close + 1].text == '.' and toks[close + 2].text == 'unwrap_or' and toks[close + 3].text == '('):
                    continue
                inner = body[toks[i + 1].end:toks[close].start]
                m = re.match(r'\s*\|\s*([A-Za-z_][A-Za-z0-9_]*)\s*\|\s*(.*)$', inner, re.S)
                if not m:
                    continue
                if not any(re.search(r'\.\s*%s\s*\(' % re.escape(d), m.group(2)) for d in methods):
                    continue
                dclose = match_close(toks, close + 3)
                # receiver: back to statement start
                j = i - 1
                depth = 0
                while j > 0:
                    x = toks[j - 1]
                    if x.kind == 'punct' and x.text in (')', ']', '}'):
                        depth += 1
                    elif x.kind == 'punct' and x.text in ('(', '[', '{'):
                        if depth == 0:
                            break
                        depth -= 1
                    elif x.kind == 'punct' and x.text in (';', '=') and depth == 0:
                        break
                    elif x.kind == 'ident' and x.text == 'return' and depth == 0:
                        break
                    j -= 1
                recv = body[toks[j].start:toks[i - 1].start].strip()
                dflt = body[toks[close + 3].end:toks[dclose].start].strip()
                hit = (toks[j].start, toks[dclose].end, 'match %s { Ok(%s) => %s, Err(_) => %s }' % (recv, m.group(1), m.group(2).strip(), dflt))
                break
        if not hit:
            break
        body = body[:hit[0]] + hit[2] + body[hit[1]:]
        n += 1
    return sig + '\x00' + body, n


@rule('R5', 'world store-passing: methods that reach `self.fs.fs` get `world: &mut World`; `self.fs.fs.m(a)` -> `world.m(&self.fs, a)`; calls of such methods get `world` as first argument '
            '(dynamic dispatch through Box<dyn FileSystem> is replaced by a call whose only known behaviour is the trait contract TC); rulearg `R5 files <src files>`')
def r5(text, ctx):
    if '\x00' not in text:
        return text, 0
    sig, body = text.split('\x00')
    methods = r5_world_methods(ctx)
    n = 0
    m = re.search(r'\bfn\s+([A-Za-z0-9_]+)', sig)
    name = m.group(1)
    forced = set()
    for a in ctx.rule_args.get('R5', []):
        if a.startswith('force-world '):
            forced.update(a.split()[1:])
    if name in methods or name in forced:
        sig2, c = re.subn(r'\(\s*(&(?:\s*mut)?\s*self|self)\s*(,?)', lambda mm: '(%s, world: &mut World%s' % (mm.group(1), ', ' if mm.group(2) else ''), sig, count=1)
        if c == 0:
            raise Undecided('R5: method %s has no self receiver' % name)
        sig = sig2
        n += 1
    # direct trait calls
    def direct(mm):
        nonlocal n
        n += 1
        return 'world.%s(&self.fs%s' % (mm.group(1), '' if mm.group(2) == ')' else ', ')
    body = re.sub(r'\bself\s*\.\s*fs\s*\.\s*fs\s*\.\s*([A-Za-z0-9_]+)\s*\(\s*(\)?)', lambda mm: ('world.%s(&self.fs)' % mm.group(1)) if mm.group(2) else direct(mm), body)
    # calls of world methods on any receiver
    toks = lex(body)
    edits = []
    for i, t in enumerate(toks):
        if t.kind == 'ident' and t.text in methods and i > 0 and toks[i - 1].text == '.' and i + 1 < len(toks) and toks[i + 1].text == '(':
            if i >= 2 and toks[i - 2].text == 'world':
                continue
            # arity filter: std methods of the same name (e.g. Read::read_to_string(&mut buf)) are left alone
            cl = match_close(toks, i + 1)
            argc = 0
            if cl > i + 2:
                argc = 1
                j = i + 2
                while j < cl:
                    if toks[j].text in ('(', '[', '{'):
                        j = match_close(toks, j)
                    elif toks[j].text == ',' and j + 1 < cl:
                        argc += 1
                    j += 1
                if toks[i + 2].text in ('|', '||'):
                    argc = -1
            ar = _R5_ARITY.get(getattr(ctx, 'r5_key', None), {}).get(t.text)
            if ar is not None and argc not in ar:
                continue
            if toks[i + 2].text == ')':
                edits.append((toks[i + 1].end, toks[i + 1].end, 'world'))
            else:
                edits.append((toks[i + 1].end, toks[i + 1].end, 'world, '))
    n += len(edits)
    body = toks_replace(body, edits)
    return sig + '\x00' + body, n


@rule('R27', '`X.as_ref()` where X is a parameter declared `impl AsRef<str>` -> `verif_as_ref_str(&X)` (external_body wrapper, assumed spec `r@ == as_ref_str_view(X)`)')
def r27(text, ctx):
    if '\x00' not in text:
        return text, 0
    sig, body = text.split('\x00')
    names = re.findall(r'\b([A-Za-z_][A-Za-z0-9_]*)\s*:\s*impl\s+AsRef\s*<\s*str\s*>', sig)
    n = 0
    for nm in names:
        body, c = re.subn(r'\b%s\s*\.\s*as_ref\s*\(\s*\)' % re.escape(nm), 'verif_as_ref_str(&%s)' % nm, body)
        n += c
    return sig + '\x00' + body, n


@rule('R28', '`path: "lit".into()` (field of type Arc<str>) -> `path: verif_str_into_arc("lit")` (external_body wrapper; `Arc<str>: From<&str>` cannot be given an assume_specification because of its lifetime binder); '
             '`verif_concatN(..).into()` -> `Arc::<str>::from(verif_concatN(..))` (definition of the blanket `Into`)')
def r28(text, ctx):
    n = 0
    def sub(m):
        nonlocal n
        n += 1
        return 'path: verif_str_into_arc(%s)' % m.group(1)
    out = re.sub(r'\bpath\s*:\s*("(?:[^"\\]|\\.)*")\s*\.into\(\)', sub, text)
    while True:
        toks = lex(out)
        hit = None
        for i, t in enumerate(toks):
            if t.kind == 'ident' and re.match(r'verif_concat\d$', t.text) and toks[i + 1].text == '(':
                k = match_close(toks, i + 1)
                if k + 4 < len(toks) and toks[k + 1].text == '.' and toks[k + 2].text == 'into' and toks[k + 3].text == '(' and toks[k + 4].text == ')':
                    hit = (toks[i].start, toks[k].end, toks[k + 4].end)
                    break
        if not hit:
            break
        out = out[:hit[0]] + 'Arc::<str>::from(' + out[hit[0]:hit[1]] + ')' + out[hit[2]:]
        n += 1
    return out, n


@rule('R29', '`#[derive(Clone, ..)]` on a struct -> Clone removed from the derive list and an explicit `impl Clone` with external_body fieldwise clone and the assumed spec `r == *self` '
             '(Verus gives derived non-Copy Clone impls no specification; the derive expansion is exactly the fieldwise clone)')
def r29(text, ctx):
    if '\x00' in text:
        return text, 0
    m = re.search(r'#\s*\[\s*derive\s*\(([^)]*)\)\s*\]', text)
    sm = re.search(r'\bstruct\s+([A-Za-z0-9_]+)\s*\{', text)
    if not m or not sm:
        return text, 0
    traits = [t.strip() for t in m.group(1).split(',') if t.strip()]
    if 'Clone' not in traits or 'Copy' in traits:
        return text, 0
    rest = [t for t in traits if t != 'Clone']
    new_attr = ('#[derive(%s)]' % ', '.join(rest)) if rest else ''
    text = text[:m.start()] + new_attr + text[m.end():]
    name = sm.group(1)
    sm = re.search(r'\bstruct\s+([A-Za-z0-9_]+)\s*\{', text)
    toks = lex(text)
    # field names: idents followed by ':' at depth 1 inside the struct braces
    fields = []
    depth = 0
    for i, t in enumerate(toks):
        if t.text == '{':
            depth += 1
        elif t.text == '}':
            depth -= 1
        elif depth == 1 and t.kind == 'ident' and i + 1 < len(toks) and toks[i + 1].text == ':' and toks[i - 1].text in ('{', ',', 'pub', ')'):
            fields.append(t.text)
    body = ', '.join('%s: self.%s.clone()' % (f, f) for f in fields)
    impl = ('\nimpl Clone for %s {\n    #[verifier::external_body]\n    fn clone(&self) -> (r: Self)\n        ensures r == *self\n    { %s { %s } }\n}\n'
            % (name, name, body))
    return text + impl, 1


@rule('R20', '`let x = loop { .. break E .. };` -> `let mut verif_slot = None; loop { .. { verif_slot = Some(E); break; } .. } let x = verif_slot.unwrap();` '
             '(Verus has no break-with-value; the unwrap becomes a proof obligation)')
def r20(text, ctx):
    if '\x00' not in text:
        return text, 0
    sig, body = text.split('\x00')
    toks = lex(body)
    n = 0
    for i, t in enumerate(toks):
        # variant: `let x = if C { loop { .. break E .. } } else { F };` -> slot; `if C { loop { .. } } else { slot = Some(F); }`; unwrap
        if t.kind == 'ident' and t.text == 'let' and i + 3 < len(toks) and toks[i + 2].text == '=' and toks[i + 3].text == 'if':
            name = toks[i + 1].text
            k = i + 4
            while k < len(toks) and toks[k].text != '{':
                if toks[k].text in ('(', '['):
                    k = match_close(toks, k)
                k += 1
            to, tc = k, match_close(toks, k)
            if not (toks[to + 1].text == 'loop' and toks[to + 2].text == '{' and match_close(toks, to + 2) == tc - 1):
                continue
            if not (toks[tc + 1].text == 'else' and toks[tc + 2].text == '{'):
                continue
            eo, ec = tc + 2, match_close(toks, tc + 2)
            if toks[ec + 1].text != ';':
                continue
            lo, lc = to + 2, tc - 1
            edits = []
            j = lo + 1
            while j < lc:
                x = toks[j]
                if x.kind == 'ident' and x.text in ('loop', 'while', 'for'):
                    q = j + 1
                    while toks[q].text != '{':
                        q += 1
                    j = match_close(toks, q) + 1
                    continue
                if x.kind == 'ident' and x.text == 'break' and toks[j + 1].text not in (';', '}', ','):
                    q = j + 1
                    while q < lc:
                        y = toks[q].text
                        if y in ('(', '[', '{'):
                            q = match_close(toks, q)
                        elif y in (',', ';', '}'):
                            break
                        q += 1
                    expr = body[toks[j + 1].start:toks[q - 1].end]
                    edits.append((x.start, toks[q - 1].end, '{ verif_slot = Some(%s); break; }' % expr))
                    j = q
                    continue
                j += 1
            if not edits:
                continue
            tys = [a[5:].strip() for a in ctx.rule_args.get('R20', []) if a.startswith('type ')]
            ann = (': Option<%s>' % tys[0]) if tys else ''
            else_expr = body[toks[eo].end:toks[ec].start].strip()
            edits.append((toks[i].start, toks[i + 3].start, 'let mut verif_slot%s = None;\n        ' % ann))
            edits.append((toks[eo].end, toks[ec].start, ' verif_slot = Some(%s); ' % else_expr))
            edits.append((toks[ec + 1].start, toks[ec + 1].end, '\n        let %s = verif_slot.unwrap();' % name))
            body = toks_replace(body, edits)
            n += 1
            break
        if t.kind == 'ident' and t.text == 'let' and i + 4 < len(toks) and toks[i + 2].text == '=' and toks[i + 3].text == 'loop' and toks[i + 4].text == '{':
            name = toks[i + 1].text
            lo = i + 4
            lc = match_close(toks, lo)
            if toks[lc + 1].text != ';':
                continue
            # breaks that belong to this loop: not inside a nested loop
            edits = []
            j = lo + 1
            nested = []
            while j < lc:
                x = toks[j]
                if x.kind == 'ident' and x.text in ('loop', 'while', 'for'):
                    k = j + 1
                    while toks[k].text != '{':
                        k += 1
                    j = match_close(toks, k) + 1
                    continue
                if x.kind == 'ident' and x.text == 'break' and toks[j + 1].text not in (';', '}', ','):
                    # expression to ',' or ';' or closing '}' at depth 0
                    k = j + 1
                    while k < lc:
                        y = toks[k].text
                        if y in ('(', '[', '{'):
                            k = match_close(toks, k)
                        elif y in (',', ';', '}'):
                            break
                        k += 1
                    expr = body[toks[j + 1].start:toks[k - 1].end]
                    edits.append((x.start, toks[k - 1].end, '{ verif_slot = Some(%s); break; }' % expr))
                    j = k
                    continue
                j += 1
            if not edits:
                continue
            tys = [a[5:].strip() for a in ctx.rule_args.get('R20', []) if a.startswith('type ')]
            ann = (': Option<%s>' % tys[0]) if tys else ''
            edits.append((toks[i].start, toks[lo].start, 'let mut verif_slot%s = None;\n        loop ' % ann))
            edits.append((toks[lc + 1].start, toks[lc + 1].end, '\n        let %s = verif_slot.unwrap();' % name))
            body = toks_replace(body, edits)
            n += 1
            break
    return sig + '\x00' + body, n


@rule('R26', '`std::io::copy(&mut A, &mut B)` -> `world.io_copy(&mut A, &mut B)` (assumed std behaviour in the write-through model)')
def r26(text, ctx):
    n = 0
    def sub(m):
        nonlocal n
        n += 1
        return 'world.io_copy('
    out = re.sub(r'\b(?:std::)?io::copy\s*\(', sub, text)
    return out, n


@rule('R16', 'lambda lifting of the immediately-invoked closure `|| -> T { B }()` into a sibling method whose parameters are the captured variables '
             '(ruleargs `R16 sig <fn signature>`, `R16 call <call expr>`, `R16 deref <ident>`); Verus does not accept closures capturing `world`/`&mut`')
def r16(text, ctx):
    if '\x00' not in text:
        return text, 0
    args = ctx.rule_args.get('R16', [])
    sigs = [a[4:].strip() for a in args if a.startswith('sig ')]
    calls = [a[5:].strip() for a in args if a.startswith('call ')]
    derefs = [a[6:].strip() for a in args if a.startswith('deref ')]
    if not sigs:
        return text, 0
    sig, body = text.split('\x00')
    toks = lex(body)
    for i, t in enumerate(toks):
        if t.kind == 'punct' and t.text == '||' and toks[i + 1].text == '->':
            j = i + 2
            while toks[j].text != '{':
                j += 1
            be = match_close(toks, j)
            if not (toks[be + 1].text == '(' and toks[be + 2].text == ')'):
                continue
            cbody = body[toks[j].start:toks[be].end]
            for d in derefs:
                ct = lex(cbody)
                cbody = toks_replace(cbody, [(x.start, x.end, '(*%s)' % d) for x in ct if x.kind == 'ident' and x.text == d])
            lname = re.search(r'fn\s+([A-Za-z0-9_]+)', sigs[0]).group(1)
            ctx.lifted[lname] = (sigs[0], cbody)
            body = body[:t.start] + calls[0] + body[toks[be + 2].end:]
            return sig + '\x00' + body, 1
    return text, 0


@rule('R15', 'the bound `RustEmbed +` is removed from where clauses (the rust-embed crate cannot be linked in single-file mode); functions that call `T::get` / `T::iter` are not extractable and stay outside the verified text')
def r15(text, ctx):
    out, n = re.subn(r'\bRustEmbed\s*\+\s*', '', text)
    return out, n


@rule('R33', '`filetime::set_file_mtime(P, FileTime::from(T))` / `filetime::set_file_atime(P, FileTime::from(T))` -> `verif_set_file_mtime(P, T)` / `verif_set_file_atime(P, T)` (external_body wrappers: the filetime crate cannot be linked in single-file mode; the call is an assumed OS effect returning io::Result<()>)')
def r33(text, ctx):
    return re.subn(r'\bfiletime::set_file_(m|a)time\(\s*(.*?),\s*FileTime::from\(\s*([A-Za-z_][A-Za-z0-9_]*)\s*\)\s*\)', r'verif_set_file_\1time(\2, \3)', text)


@rule('R2b', '`fn f(mut x: T, ..) { B }` -> `fn f(x: T, ..) { let mut x = x; B }` (desugaring of a mutable parameter binding)')
def r2b(text, ctx):
    if '\x00' not in text:
        return text, 0
    sig, body = text.split('\x00')
    names = re.findall(r'[(,]\s*mut\s+([a-z_][A-Za-z0-9_]*)\s*:', sig)
    names = [n for n in names if n != 'self']
    if not names:
        return text, 0
    for nm in names:
        sig = re.sub(r'([(,]\s*)mut\s+%s\s*:' % re.escape(nm), r'\1%s:' % nm, sig)
    body = '{ ' + ' '.join('let mut %s = %s;' % (nm, nm) for nm in names) + body[1:]
    return sig + '\x00' + body, len(names)
