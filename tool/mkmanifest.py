#!/usr/bin/env python3
"""Regenerate /verif/MANIFEST.json from the table below (kept next to the code so it stays current)."""
import json
import os
import sys

VERIF = os.path.dirname(os.path.dirname(os.path.abspath(__file__)))

BASELINE = "cd /repo && cargo test --workspace --no-fail-fast --offline"

TECH = "contract-based deductive verification: Verus (Z3) discharges requires/ensures/invariant obligations on functions extracted mechanically from /repo on every run"
NOTE_COMMON = ("Trusted: Verus/Z3/rustc; the std specs in prelude/ (assume_specification / external_body / axioms, listed mechanically in evidence.coverage.trusted_base); "
               "the rewrite rules of DESIGN.md section 3 (each application counted in evidence); usize = 64 bit. "
               "Verdicts: exit 1 needs a lost proof AND either a failing input found by the bounded oracle or an observable difference from the pinned tree on the oracle universe (DESIGN.md section 8); a lost proof alone is exit 2. ")

# property id -> (claimed?, level text, level note, design ref)
CHECKS = {}
NOT_APPLICABLE = {}


def claim(pid, text, note, ref):
    CHECKS[pid] = (text, note, ref)


def na(pid, reason):
    NOT_APPLICABLE[pid] = reason


# ---------------------------------------------------------------------------------------------------------
exec(open(os.path.join(VERIF, 'tool', 'claims.py')).read())
# ---------------------------------------------------------------------------------------------------------


def main():
    checks = []
    for pid in sorted(CHECKS):
        text, note, ref = CHECKS[pid]
        checks.append({
            'property_id': pid,
            'quick_cmd': './check %s --tier quick' % pid,
            'thorough_cmd': './check %s --tier thorough' % pid,
            'evidence_file': '/verif/evidence/%s.json' % pid,
            'replay_cmd_template': './check %s --replay {path}' % pid,
            'engine': 'verus-on-extracted-code',
            'level_claimed': {'category': 'proof', 'text': text, 'design_ref': ref},
            'level_note': NOTE_COMMON + note,
            'technique': TECH,
        })
    m = {
        'version': 1,
        'setup_cmd': 'cd /verif && ./setup.sh',
        'hooks': {
            'guard': 'none',
            'enable': 'no hooks: nothing in /repo is instrumented; verification text is extracted from the working tree on every run and contracts live in /verif/units/*.vspec',
            'baseline_off_cmd': BASELINE,
            'source_commits': [],
            'add_only': True,
        },
        'engines': [
            {'name': 'verus-on-extracted-code', 'path': '/verif/check',
             'serves_properties': sorted(CHECKS),
             'kind_free_text': 'python3 driver (tool/*.py): token-aware item extractor, counted rewrite rules, contract splicer, Verus runner, clause-level attribution, evidence writer'},
        ],
        'checks': checks,
        'notes': 'See DESIGN.md. Genuine defects found by the contracts and repaired in /repo are listed in known_findings.json (fixed:) together with findings recorded but not repaired.',
        'not_applicable': [{'property_id': k, 'reason': v} for k, v in sorted(NOT_APPLICABLE.items())],
    }
    json.dump(m, open(os.path.join(VERIF, 'MANIFEST.json'), 'w'), indent=1)
    try:
        import jsonschema
        jsonschema.validate(m, json.load(open('/root/.vp/MANIFEST.schema.json')))
        print('MANIFEST.json valid; %d checks, %d not applicable' % (len(checks), len(NOT_APPLICABLE)))
    except ImportError:
        print('jsonschema not importable; MANIFEST.json written (%d checks)' % len(checks))


if __name__ == '__main__':
    main()
