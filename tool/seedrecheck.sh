#!/bin/bash
# usage: seedrecheck.sh <seed id> <PID>...   re-runs the given checks against seeded/<id>/patch.diff in a scratch worktree and refreshes
# seeded/<id>/checks.log and the checks_run / detected_by fields of meta.json (the confirmation part, verify.log, is left as it is)
set -u
VH=${VERIF_HOME:-/verif}   # the machinery to run (a snapshot copy lets /verif be edited while a batch runs); results always go to /verif/seeded
ID=$1; shift
OUT=/verif/seeded/$ID
WT=$(mktemp -d /tmp/sr-XXXXXX)
git -C /repo worktree add -q --detach "$WT/repo" HEAD
( cd "$WT/repo" && git apply "$OUT/patch.diff" ) || { echo "patch does not apply"; git -C /repo worktree remove --force "$WT/repo"; rm -rf "$WT"; exit 3; }
: > "$OUT/checks.log"
RES=""
for pid in "$@"; do
  o=$(VERIF_REPO="$WT/repo" VERIF_SCRATCH="$WT/scratch" $VH/check $pid 2>&1); rc=$?
  echo "=== check $pid exit=$rc" >> "$OUT/checks.log"; echo "$o" | grep -E "^(VIOLATION|UNDECIDED|KNOWN|property)" | cut -c1-300 >> "$OUT/checks.log"
  RES="$RES $pid:$rc"
done
git -C /repo worktree remove --force "$WT/repo" >/dev/null 2>&1; rm -rf "$WT"
python3 - "$OUT/meta.json" "$RES" <<'PY'
import json,sys
dst,res=sys.argv[1:3]
m=json.load(open(dst))
m['checks_run']={x.split(':')[0]: int(x.split(':')[1]) for x in res.split()}
m['detected_by']=[k for k,c in m['checks_run'].items() if c==1]
json.dump(m,open(dst,'w'),indent=1)
print(dst, m['checks_run'])
PY
