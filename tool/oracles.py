"""Bounded stand-in / witness search: builds /verif/replay against /repo's working tree and runs the oracle binary.
Results are labelled bounded and never counted as discharged obligations."""
import os
import subprocess
import time
import gen

VERIF = gen.VERIF
REPLAY = os.path.join(VERIF, 'replay')

PROP_ORACLES = {
    'C01': ['tree.memory', 'tree.altroot', 'tree.overlay', 'tree.physical', 'union.overlay', 'tree.stack', 'transfer', 'copydir'],
    'C03': ['tree.memory', 'tree.altroot', 'tree.overlay', 'union.overlay', 'tree.stack'],
    'C04': ['reader', 'writer', 'tree.memory', 'tree.physical', 'union.overlay', 'transfer', 'handles'],
    'C05': ['tree.memory', 'tree.altroot', 'tree.overlay', 'tree.physical', 'union.overlay', 'hostile.physical', 'walk.vanish'],
    'C06': ['paths'],
    'C07': ['tree.altroot', 'composite.altroot', 'tree.physical', 'transfer', 'paths', 'tree.stack', 'direct.altroot'],
    'C08': ['overlay', 'faults'],
    'C09': ['tree.overlay', 'union.overlay', 'overlay', 'tree.stack'],
    'C10': ['overlay', 'union.overlay'],
    'C11': ['composite.memory', 'composite.altroot', 'composite.physical', 'transfer', 'copydir', 'direct.altroot'],
    'C12': ['paths', 'tree.memory', 'tree.altroot', 'walk.vanish', 'faults', 'hostile.physical', 'direct.altroot'],
    'C13': ['paths', 'reader', 'writer', 'tree.memory', 'tree.altroot', 'tree.overlay', 'tree.physical', 'union.overlay', 'overlay', 'transfer', 'handles', 'hostile.physical', 'times', 'embedded', 'adiff:hostile', 'adiff:reader', 'adiff:schedule', 'adiff:steps.memory'],
    'C14': ['reader', 'writer', 'handles', 'tree.physical'],
    'C15': ['adiff:steps.memory', 'adiff:steps.altroot', 'adiff:steps.overlay', 'adiff:steps.physical', 'adiff:reader', 'adiff:schedule', 'adiff:hostile', 'adiff:transfer', 'adiff:handles', 'adiff:direct'],
    'C18': ['embedded'],
    'C19': ['times'],
    'C20': ['faults', 'composite.memory', 'transfer', 'copydir', 'walk.vanish'],
}
BOUNDS = {
    'paths': 'all join arguments over {/ . a é blank} up to length 5 (deep: 6) x 5 bases, plus parent/filename/extension/root of every result; equality of paths within and across filesystem instances',
    'reader': 'contents of length 0,1,3 x all scripts of 2 (deep: 3) read/seek calls from 17 operations incl. extreme offsets',
    'writer': 'create/append sessions x all scripts of 3 (deep: 4) write/seek/flush calls from 9 operations',
    'tree.memory': 'all sequences of 2 (deep: 3) operations (5 primitives plus move_file / copy_file to a fixed destination) over the 14-path universe (incl. prefix siblings a/ab/a.b with a child below ab, a name that starts with the own directory name of the altroot, a directory nested in one of the same name a/a, a multi-byte directory with a child, a dot-file whose name starts with two dots, a name containing a backslash) on MemoryFS, every observation (incl. walk_dir from the root: every entry once, directories first) compared with the abstract tree after every step',
    'tree.altroot': 'same sequences on AltrootFS over MemoryFS rooted at /r, plus: nothing outside /r changes',
    'tree.overlay': 'same sequences (length 2) on OverlayFS over two MemoryFS layers with an empty lower layer',
    'tree.stack': 'the same sequences (length 2) on stacked adapters: altroot of altroot, altroot over an overlay, an overlay whose layers are altroots, an overlay whose upper layer is an overlay, an overlay of 4 layers (lower layers empty): plain tree semantics, lower layers stay empty',
    'composite.memory': 'sequences of 2 operations incl. create_dir_all / remove_dir_all on MemoryFS',
    'composite.altroot': 'sequences of 2 operations incl. create_dir_all / remove_dir_all on AltrootFS',
    'tree.physical': 'same sequences (length 2) on PhysicalFS over a fresh temporary directory, plus: nothing next to the root directory changes',
    'composite.physical': 'sequences of 2 operations incl. create_dir_all / remove_dir_all on PhysicalFS',
    'union.overlay': 'OverlayFS over three layers with pre-populated lower layers (shadowed file, split directory, a nested directory that exists only in the bottom layer, a 20000-byte file with a multi-byte name in the bottom layer) compared with ONE plain tree initialised to the union (three start configurations: plain, /f also in the upper layer, /f already removed through the overlay), all sequences of 2 (deep: 3) operations outside the input classes of the known findings',
    'overlay': 'all sequences of 1 (deep: 2) overlay operations (15 kinds incl. move_file / copy_file x 5 paths) over 2 and 3 layers with pre-populated lower layers and a pre-populated upper layer (an entry and a marker for the same path, a stale marker, stray non-marker content of the bookkeeping folder: a 2-byte file name, a directory), in three layouts (a filesystem per layer; all layers sibling directories of one filesystem; an upper layer whose directory is created only after construction): lower layers unchanged, observers change nothing, bookkeeping hidden',
    'copydir': 'copy_dir / move_dir of 3 source trees x 3 source directory names (ASCII, multi-byte, below a multi-byte parent) (incl. names repeating the source directory name, empty and nested directories, binary and dot files) x same/other filesystem x existing destination: structure, bytes and returned count; plus a PhysicalFS source (native move_dir) to the same instance, another PhysicalFS instance and a MemoryFS: nothing may be written into the source filesystem at the destination path',
    'faults': '12 scenarios (incl. re-creating a removed file / directory through an overlay with a faulty upper layer) (create_dir_all, remove_dir_all, copy/move_file, copy/move_dir, walk_dir, read_to_string, altroot, overlay with faulty upper / faulty lower layer) x every position k of a failing underlying call: never Ok with a partial or wrong effect, never a panic, lower layers untouched',
    'embedded': 'EmbeddedFS over the fixture folder replay/embed (nested, dotted, multi-byte, prefix-sharing names, an empty file) against PhysicalFS on the same folder: for every embedded file and implied directory, the root, and for each an extension, a prefix, a sibling and a path below it (65 paths): existence, type, length, bytes, listings, walk; every mutating call is refused as not-supported; nothing changes',
    'times': 'set_creation/modification/access_time: 3 fields x 3 fields (ordered pairs) x 7 instants (epoch, sub-second, before the epoch, far future) on a file, a directory and the root, on memory, altroot, overlay (upper-layer entries; also with layers that are sub-directories of their filesystems: nothing outside the layer changes), physical and altroot over physical; plus append sessions (creation time kept, also when set while the handle is open)',
    'walk.vanish': 'entries removed while a walk is under way (2 and 4 files; memory, altroot, overlay): one not-found error item per vanished entry, naming it, then the end; plus an altroot whose base directory is removed / replaced by a file underneath it: exists, is_dir, is_file, metadata, read_dir, walk_dir of its root agree',
    'direct.altroot': 'AltrootFS::copy_file called on the filesystem object for every (src, dest) of 8 paths (root, files, a directory, absent, below an absent parent, multi-byte) on an altroot over a populated in-memory tree with an entry outside the root: root destination refused as NotSupported, existing destination refused, Ok => same bytes at the destination, nothing but the destination changes (inside or outside the altroot)',
    'adiff:direct': 'the optional trait methods copy_file / move_file / move_dir called on the filesystem objects themselves (memory, altroot over memory) for every (src, dest) of 6 paths incl. the root path "": result class and the tree afterwards, async against sync',
    'adiff:handles': '6 scenarios of write handles that overlap (idle handle dropped last, repeated flush after a foreign write, two append handles) or outlive their file (idle / with data / removed between write and an explicit flush, observed while still open) on memory, altroot, overlay: the async tree and bytes end up like the sync ones',
    'adiff:transfer': 'copy_file / move_file from a memory / altroot / physical source to another in-memory filesystem, with and without an existing destination; copy_dir / move_dir into a destination filesystem that refuses one file (fails part-way at 2 positions, or not at all): outcome class and both trees afterwards: async against sync',
    'handles': '9 scenarios of read / write handles that outlive their file (removed, ancestor removed, re-created, replaced by a directory) or overlap with a second write handle on the same file (each flush and the drop publish exactly the own buffer) on memory, altroot, overlay: no panic, filesystem usable afterwards',
    'hostile.physical': '14 operations on every entry of a directory holding a dangling symlink, symlinks to a directory and to a file and a non-UTF-8 name: no panic; metadata type agrees with listability; create_dir on an occupied name (also a dangling symlink) is classified as file-exists / directory-exists',
    'adiff:steps.memory': 'differential, sync MemoryFS vs AsyncMemoryFS: all sequences of 2 (deep: 3) operations (11 kinds incl. move/copy file, copy/move dir x 8 paths) from the empty and from a populated tree; after every step the result class and every observation (exists, metadata type/len, is_file/is_dir, listing, bytes, text, walk) of every path must agree',
    'adiff:steps.altroot': 'same (length 2), AltrootFS vs AsyncAltrootFS over in-memory filesystems',
    'adiff:steps.overlay': 'same, OverlayFS vs AsyncOverlayFS over two in-memory layers with a pre-populated lower layer',
    'adiff:steps.physical': 'same (length 1), PhysicalFS vs AsyncPhysicalFS on two fresh temporary directories',
    'adiff:reader': 'sync vs async read handle over the same bytes (lengths 0,1,3): all scripts of 2 (deep: 3) read/seek calls from 15 operations',
    'adiff:schedule': 'walk_dir / read_dir of the async path type over a filesystem whose every call and every stream item is Pending k times first, k = 0..3, on 4 trees: the yielded sequence is independent of k, equals the sync traversal as a set, directories before their contents; plus: every remaining entry removed after the first item (1 and 3 entries), k = 0..3: as many error items as the sync iterator yields, then the end',
    'adiff:hostile': 'AsyncPhysicalFS on a directory holding a dangling symlink and a non-UTF-8 name: no panic, listing equals the sync one',
    'transfer': 'copy_file / move_file over 4 contents (empty, 1 byte, non-UTF-8, 9000 bytes) x same/other filesystem x altroot source x existing destination',
}


def crate_dir():
    """the replay crate to build: /verif/replay for /repo; for a scratch tree (VERIF_REPO) a copy under VERIF_SCRATCH with the path dependency rewritten"""
    repo = gen.REPO
    if repo == '/repo' or not os.environ.get('VERIF_SCRATCH'):
        return REPLAY
    import shutil
    d = os.path.join(os.environ['VERIF_SCRATCH'], 'replay')
    if not os.path.exists(d):
        shutil.copytree(REPLAY, d, ignore=shutil.ignore_patterns('target'))
        t = open(os.path.join(d, 'Cargo.toml')).read().replace('path = "/repo"', 'path = "%s"' % repo)
        open(os.path.join(d, 'Cargo.toml'), 'w').write(t)
    return d


def build():
    env = dict(os.environ)
    env['CARGO_NET_OFFLINE'] = 'true'
    t0 = time.time()
    p = subprocess.run(['cargo', 'build', '--offline', '--release', '--bin', 'oracle', '--bin', 'adiff'], cwd=crate_dir(), env=env, stdout=subprocess.PIPE, stderr=subprocess.STDOUT, timeout=1200)
    return p.returncode == 0, p.stdout.decode('utf-8', 'replace')[-3000:], time.time() - t0


def run(names, deep=False, timeout=None):
    """returns (ok_to_trust, results) with results: list of dict(check, status PASS|FAIL|ERROR, detail)"""
    timeout = timeout or (2400 if deep else 600)
    ok, log, bt = build()
    if not ok:
        return False, [{'check': n, 'status': 'ERROR', 'detail': 'replay crate does not build against the current /repo: ' + log[-600:]} for n in names]
    import concurrent.futures as cf

    def one(n):
        res = []
        binary, arg = ('adiff', n[6:]) if n.startswith('adiff:') else ('oracle', n)
        cmd = [os.path.join(crate_dir(), 'target', 'release', binary)] + (['--deep'] if deep else []) + [arg]
        try:
            p = subprocess.run(cmd, stdout=subprocess.PIPE, stderr=subprocess.DEVNULL, timeout=timeout)
            lines = [l for l in p.stdout.decode('utf-8', 'replace').split('\n') if l.startswith(('PASS', 'FAIL'))]
            if not lines and (p.returncode < 0 or p.returncode == 101):
                # killed by a signal (SIGABRT): a panic escaped catch_unwind - raised inside a Drop while unwinding or in a no-unwind context
                res.append({'check': n, 'status': 'ABORT', 'bound': BOUNDS.get(n, ''), 'cmd': ' '.join(cmd),
                            'detail': 'the oracle process died (%s) while running %s: a panic of the library escaped every handler (panic inside Drop / while unwinding, or in code the oracle runs unguarded)' % ('signal %d' % -p.returncode if p.returncode < 0 else 'panic exit 101', n)})
            elif not lines:
                res.append({'check': n, 'status': 'ERROR', 'detail': 'no verdict line (exit %d)' % p.returncode})
            traces = [l.split() for l in p.stdout.decode('utf-8', 'replace').split('\n') if l.startswith('TRACE ')]
            trace = traces[-1][2] if traces and len(traces[-1]) >= 3 else None
            for l in lines:
                st, _, rest = l.partition(' ')
                res.append({'check': n, 'status': st, 'detail': rest, 'bound': BOUNDS.get(n, ''), 'cmd': ' '.join(cmd), 'trace': trace, 'deep': deep})
        except subprocess.TimeoutExpired:
            res.append({'check': n, 'status': 'ERROR', 'detail': 'timeout'})
        return res

    # the oracles are independent processes (own temporary directories); results keep the order of `names`
    with cf.ThreadPoolExecutor(max_workers=6) as ex:
        out = [x for res in ex.map(one, names) for x in res]
    return True, out


TRACES = os.path.join(VERIF, 'units', 'oracles.trace.json')


def record_traces():
    """run every oracle in the quick bounds on the pinned tree and record its behaviour digest (./check ALL --record)"""
    import json
    names = sorted(set(n for v in PROP_ORACLES.values() for n in v))
    ok, res = run(names, deep=False)
    out = {r['check']: r.get('trace') for r in res if r['status'] == 'PASS' and r.get('trace')}
    json.dump(out, open(TRACES, 'w'), indent=1, sort_keys=True)
    return out, [r for r in res if r['status'] != 'PASS']


def behaviour_changed(pid, results):
    """compare the behaviour digests of the property's oracles (quick bounds) with the pinned ones.
    returns (True, [names that differ]) / (False, [names compared]) / (None, reason) when no comparison is possible"""
    import json
    names = PROP_ORACLES.get(pid) or []
    if not names or not os.path.exists(TRACES):
        return None, 'no oracle / no recorded digests for this property'
    pinned = json.load(open(TRACES))
    quick = [r for r in results if not r.get('deep')]
    if len(set(r['check'] for r in quick)) < len(names):
        ok, quick = run(names, deep=False)
        if not ok:
            return None, 'oracle crate does not build'
    differ, same = [], []
    for r in quick:
        if r['status'] != 'PASS' or not r.get('trace') or r['check'] not in pinned:
            return None, 'oracle %s gave no digest (%s)' % (r['check'], r['status'])
        (same if r['trace'] == pinned[r['check']] else differ).append(r['check'])
    return (True, differ) if differ else (False, same)
