#!/bin/bash
# usage: dbg.sh <unit> [verus args]   -- runs verus on the last generated build/<unit>.rs with human-readable output
U=$1; shift
cd /verif/build && verus $U.rs --multiple-errors 10 "$@" 2>&1 | grep -v "^note: \|^warning: unused" | head -${LINES_MAX:-120}
