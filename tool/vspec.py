"""Parser for units/*.vspec contract files (the only hand-written verification text)."""
import os
import re
from extract import Undecided

DIRECTIVES = ('rules+', 'subst', 'nohint', 'ret', 'props', 'requires', 'ensures', 'decreases', 'attr', 'loop', 'closure', 'hint', 'as',
              'rules', 'sigsub', 'opens', 'recommends', 'external_body', 'rename', 'params')


class Clause:
    def __init__(self, kind, tags, label, expr, lineno):
        self.kind, self.tags, self.label, self.expr, self.lineno = kind, tags, label, expr, lineno
        self.strict = False


class ItemSpec:
    def __init__(self, source, path, lineno):
        self.source = source
        self.path = path
        self.lineno = lineno
        self.as_header = None
        self.ret = None
        self.props = []
        self.clauses = []       # requires / ensures / decreases
        self.attrs = []
        self.loops = {}         # n -> list of Clause(kind in invariant|decreases|iter|ensures)
        self.closures = {}      # n -> {'sig': str, 'clauses': [Clause]}
        self.hints = []         # (label, tags, where, prefix, text)
        self.rules = None       # override unit rules
        self.external_body = False
        self.rename = None
        self.params = None
        self.rule_args = {}
        self.home = None
        self.included_from = None
        self.auto = []


class UnitSpec:
    def __init__(self, path):
        self.path = path
        self.name = None
        self.features = []
        self.prelude = []
        self.spec = []
        self.rules = []
        self.items = []         # ItemSpec or ('raw', text, lineno)
        self.rule_args = {}
        self.vacuity = True
        self.includes = []
        self.watches = []
        self.auto = []
        self.derived_from = None
        self.dropped = []


TAG_RE = re.compile(r'^\[([^\]|]*)\|\s*([^\]]+)\]\s*(.*)$', re.S)


# a clause that carries well-formedness (C03) also carries the consistency of observers (C05): "exists iff the parent lists it" is a
# statement about well-formed trees only, so every mutator's wf / type-check clause is a premise of C05
# C09 says the overlay obeys the operation contracts of C01 relative to the union, and C10 (deletions persist, re-creation starts fresh) is
# the remove / create half of those contracts: every overlay clause is a premise of C01 for the overlay configurations C01 quantifies over
# C11 (transfer and recursive operations are exact) is C01's "a successful call changes exactly the entries it names" for the composite calls
TAG_IMPLIES = {'C03': ['C05'], 'C10': ['C09', 'C01'], 'C09': ['C01'], 'C11': ['C01']}


def expand_tags(tags):
    out = list(tags)
    i = 0
    while i < len(out):
        for u in TAG_IMPLIES.get(out[i], []):
            if u not in out:
                out.append(u)
        i += 1
    return out


def parse_tagged(rest, lineno, path):
    m = TAG_RE.match(rest.strip())
    if not m:
        raise Undecided('%s:%d: clause needs [tags | label]' % (path, lineno))
    tags = expand_tags(m.group(1).split())
    return tags, m.group(2).strip(), m.group(3).strip()


def parse(path):
    u = UnitSpec(path)
    lines = open(path, encoding='utf-8').read().split('\n')
    i = 0
    cur_source = None
    cur = None
    n = len(lines)

    def take_block(i):
        # lines[i] ends with '<<<' ; collect until a line that is '>>>'
        out = []
        i += 1
        while i < n and lines[i].strip() != '>>>':
            out.append(lines[i])
            i += 1
        if i >= n:
            raise Undecided('%s: unterminated <<< block' % path)
        return '\n'.join(out), i + 1

    def take_cont(i, first):
        # continuation lines: indented by >= 6 spaces
        parts = [first]
        i += 1
        while i < n and lines[i].startswith('      ') and lines[i].strip():
            parts.append(lines[i].strip())
            i += 1
        return ' '.join(parts), i

    while i < n:
        line = lines[i]
        s = line.strip()
        if not s or s.startswith('#'):
            i += 1
            continue
        lineno = i + 1
        word, _, rest = s.partition(' ')
        rest = rest.strip()
        indented = line.startswith(' ')
        if not indented:
            cur = None
            if word == 'unit':
                u.name = rest
            elif word == 'features':
                u.features += rest.split()
            elif word == 'prelude':
                u.prelude += rest.split()
            elif word == 'spec':
                u.spec += rest.split()
            elif word == 'source':
                cur_source = rest
            elif word == 'rules':
                u.rules = rest.split()
            elif word == 'rulearg':
                k, _, v = rest.partition(' ')
                u.rule_args.setdefault(k, []).append(v.strip())
            elif word == 'autoclause':
                # autoclause c20: every function of this unit that threads `world` (rule R5) gets the clause
                # "an underlying I/O failure is never reported as success" (see gen.py: auto_c20)
                u.auto += rest.split()
            elif word == 'include':
                # include <unit> [stubs] [only <item-substring>...]: reuse another unit's items with their contracts.
                # `stubs` makes every function external_body (contract assumed here, proved in the home unit).
                ws = rest.split()
                other = parse(os.path.join(os.path.dirname(path), ws[0] + '.vspec'))
                stubs = 'stubs' in ws[1:]
                u.includes.append((ws[0], stubs))
                for r_ in other.rules:
                    pass
                for k, v in other.rule_args.items():
                    for x in v:
                        if x not in u.rule_args.setdefault(k, []):
                            u.rule_args[k].append(x)
                have = set()
                for x in u.items:
                    if isinstance(x, tuple):
                        have.add(('raw', x[4], x[2]))
                    else:
                        have.add(('item', x.home, x.source, x.path))
                for oi in other.items:
                    if isinstance(oi, tuple):
                        if ('raw', oi[4], oi[2]) not in have:
                            u.items.append(oi)
                        continue
                    if ('item', oi.home, oi.source, oi.path) in have:
                        continue
                    if not getattr(oi, 'included_from', None):
                        oi.included_from = ws[0]
                    if oi.rules is None:
                        oi.rules = list(other.rules)
                    if stubs:
                        oi.external_body = True
                    u.items.append(oi)
                for nm in other.prelude:
                    if nm not in u.prelude:
                        u.prelude.append(nm)
                for nm in other.spec:
                    if nm not in u.spec:
                        u.spec.append(nm)
                for nm in other.features:
                    if nm not in u.features:
                        u.features.append(nm)
            elif word == 'derive':
                # derive <unit> <prefix> <tag> <old source> => <new source>
                # the contracts, hints and lemmas of <unit> applied to the same items of another source file (the async port read through
                # rule R30): labels get the prefix, every clause is tagged <tag> only; items that <unit> itself includes stay as they are
                m = re.match(r'(\S+)\s+(\S+)\s+(\S+)\s+(\S+)\s*=>\s*(\S+)$', rest)
                if not m:
                    raise Undecided('%s:%d: bad derive directive' % (path, lineno))
                oname, prefix, tag, old_src, new_src = m.groups()
                other = parse(os.path.join(os.path.dirname(path), oname + '.vspec'))
                u.derived_from = oname
                for nm in other.features:
                    if nm not in u.features:
                        u.features.append(nm)
                for nm in other.prelude:
                    if nm not in u.prelude:
                        u.prelude.append(nm)
                for nm in other.spec:
                    if nm not in u.spec:
                        u.spec.append(nm)
                if not u.rules:
                    u.rules = list(other.rules)
                for k, v in other.rule_args.items():
                    for x in v:
                        x = x.replace(old_src, new_src)
                        if x not in u.rule_args.setdefault(k, []):
                            u.rule_args[k].append(x)
                for oi in other.items:
                    if isinstance(oi, tuple):
                        u.items.append(oi)
                        continue
                    if getattr(oi, 'included_from', None) or oi.source != old_src:
                        if not getattr(oi, 'included_from', None):
                            oi.included_from = oname
                            if oi.rules is None:
                                oi.rules = list(other.rules)
                        u.items.append(oi)
                        continue
                    oi.source = new_src
                    oi.home = u.name
                    oi.auto_tag = tag
                    oi.props = [tag]
                    if oi.rules is None:
                        oi.rules = list(other.rules)
                    for k, v in list(oi.rule_args.items()):
                        oi.rule_args[k] = [x.replace(old_src, new_src) for x in v]
                    # clauses taken verbatim from a property that the sync code is known to miss (ensures!) are not carried over: the derived unit
                    # asks whether the port meets the contract the sync code meets, not whether both are right
                    oi.clauses = [c for c in oi.clauses if not c.strict]
                    for c in oi.clauses:
                        if c.label:
                            c.label = prefix + '.' + c.label
                        c.tags = [tag]
                    for n_, cl in oi.loops.items():
                        for c in cl:
                            if c.label:
                                c.label = prefix + '.' + c.label
                            c.tags = [tag]
                    for n_, d in oi.closures.items():
                        for c in d['clauses']:
                            if c.label:
                                c.label = prefix + '.' + c.label
                            c.tags = [tag]
                    oi.hints = [(prefix + '.' + h[0], [tag]) + tuple(h[2:]) for h in oi.hints]
                    u.items.append(oi)
            elif word == 'rawsubst':
                # rawsubst "old" => "new": textual replacement in the raw blocks (spec functions, lemmas) that came in through `derive`
                m = re.match(r'"((?:[^"\\]|\\.)*)"\s*=>\s*"((?:[^"\\]|\\.)*)"$', rest)
                if not m:
                    raise Undecided('%s:%d: bad rawsubst directive' % (path, lineno))
                a_, b_ = m.group(1), m.group(2)
                nhit = 0
                for k_, x_ in enumerate(u.items):
                    if isinstance(x_, tuple) and a_ in x_[1]:
                        nhit += x_[1].count(a_)
                        u.items[k_] = (x_[0], x_[1].replace(a_, b_)) + tuple(x_[2:])
                if nhit == 0:
                    raise Undecided('%s:%d: rawsubst matches nothing' % (path, lineno))
            elif word == 'patch':
                # patch <item path>: the indented directives that follow (rulearg, rules+, subst, hint, loop ...) amend a derived item
                hits = [x for x in u.items if not isinstance(x, tuple) and x.home == u.name and x.path == rest]
                if len(hits) != 1:
                    raise Undecided('%s:%d: patch matches %d derived items: %s' % (path, lineno, len(hits), rest))
                cur = hits[0]
                i += 1
                continue
            elif word == 'exclude':
                # exclude <unit>: remove the items that came in from <unit> (a derived unit then includes that unit's own derived twin instead)
                before = len(u.items)
                u.items = [x for x in u.items if isinstance(x, tuple) and x[4] != rest or not isinstance(x, tuple) and x.home != rest]
                if len(u.items) == before:
                    raise Undecided('%s:%d: exclude matches nothing: %s' % (path, lineno, rest))
            elif word == 'drop':
                # drop <item path>: remove a derived item that has no counterpart in the new source (stated in the unit, counted in the evidence)
                before = len(u.items)
                u.items = [x for x in u.items if isinstance(x, tuple) or not (x.home == u.name and x.path == rest)]
                if len(u.items) == before:
                    raise Undecided('%s:%d: drop matches no derived item: %s' % (path, lineno, rest))
                u.dropped.append(rest)
            elif word == 'raw':
                if not rest.endswith('<<<'):
                    raise Undecided('%s:%d: raw needs <<<' % (path, lineno))
                text, i = take_block(i)
                hdr = rest[:-3].strip()
                if hdr.startswith('in '):
                    u.items.append(('rawin', text, lineno, hdr[3:].strip(), u.name))
                else:
                    u.items.append(('raw', text, lineno, None, u.name))
                continue
            elif word == 'watch':
                # watch <props...> | <item path>: a function outside the verifier's reach; only its source hash is monitored, a change
                # makes the properties undecided and hands the decision to the bounded oracle
                tags, _, pe = rest.partition('|')
                u.watches.append((cur_source, pe.strip(), expand_tags(tags.split()), lineno))
            elif word == 'item':
                pe = rest
                as_header = None
                if ' as ' in rest:
                    pe, as_header = rest.split(' as ', 1)
                cur = ItemSpec(cur_source, pe.strip(), lineno)
                cur.home = u.name
                cur.auto = list(u.auto)
                # an item written out after `derive` replaces the derived one (same source and path), in place
                for k_, x_ in enumerate(u.items):
                    if not isinstance(x_, tuple) and x_.home == u.name and x_.source == cur_source and x_.path == cur.path:
                        u.items[k_] = cur
                        break
                else:
                    u.items.append(cur)
                cur.as_header = as_header.strip() if as_header else None
                i += 1
                continue
                cur.as_header = as_header.strip() if as_header else None
                u.items.append(cur)
            else:
                raise Undecided('%s:%d: unknown directive %r' % (path, lineno, word))
            i += 1
            continue
        if cur is None:
            raise Undecided('%s:%d: indented directive outside item' % (path, lineno))
        if word == 'ret':
            cur.ret = rest
            i += 1
        elif word == 'props':
            cur.props = expand_tags(rest.split())
            i += 1
        elif word == 'attr':
            cur.attrs.append(rest)
            i += 1
        elif word == 'rules':
            cur.rules = rest.split()
            i += 1
        elif word == 'rulearg':
            k, _, v = rest.partition(' ')
            cur.rule_args.setdefault(k, []).append(v.strip())
            i += 1
        elif word == 'nohint':
            # nohint "anchor prefix": remove the hints placed at that anchor (derived items whose text lacks the statement)
            m = re.match(r'"((?:[^"\\]|\\.)*)"$', rest)
            if not m:
                raise Undecided('%s:%d: bad nohint directive' % (path, lineno))
            before = len(cur.hints)
            cur.hints = [h for h in cur.hints if h[3] != m.group(1)]
            if len(cur.hints) == before:
                raise Undecided('%s:%d: nohint matches nothing' % (path, lineno))
            i += 1
        elif word == 'rules+':
            cur.rules = list(cur.rules if cur.rules is not None else u.rules) + rest.split()
            i += 1
        elif word == 'subst':
            # subst "old" => "new": textual replacement in the hints and clause expressions of this item (derived items: where the port's
            # types differ from the sync ones, e.g. &String instead of &Arc<str>)
            m = re.match(r'"((?:[^"\\]|\\.)*)"\s*=>\s*"((?:[^"\\]|\\.)*)"$', rest)
            if not m:
                raise Undecided('%s:%d: bad subst directive' % (path, lineno))
            a_, b_ = m.group(1), m.group(2)
            nhit = 0
            newh = []
            for h in cur.hints:
                nhit += h[4].count(a_)
                newh.append(h[:4] + (h[4].replace(a_, b_),) + h[5:])
            cur.hints = newh
            for c in cur.clauses:
                nhit += c.expr.count(a_)
                c.expr = c.expr.replace(a_, b_)
            for n_, cl in cur.loops.items():
                for c in cl:
                    nhit += c.expr.count(a_)
                    c.expr = c.expr.replace(a_, b_)
            for n_, d in cur.closures.items():
                for c in d['clauses']:
                    nhit += c.expr.count(a_)
                    c.expr = c.expr.replace(a_, b_)
            if nhit == 0:
                raise Undecided('%s:%d: subst matches nothing' % (path, lineno))
            i += 1
        elif word == 'external_body':
            cur.external_body = True
            i += 1
        elif word == 'rename':
            cur.rename = rest
            i += 1
        elif word == 'params':
            cur.params = rest
            i += 1
        elif word in ('requires', 'ensures', 'ensures!'):
            full, i = take_cont(i, rest)
            tags, label, expr = parse_tagged(full, lineno, path)
            c = Clause('ensures' if word == 'ensures!' else word, tags, label, expr, lineno)
            c.strict = (word == 'ensures!')
            cur.clauses.append(c)
        elif word == 'decreases':
            full, i = take_cont(i, rest)
            cur.clauses.append(Clause('decreases', [], None, full, lineno))
        elif word == 'loop':
            full, i = take_cont(i, rest)
            m = re.match(r'(\d+)\s+(invariant|decreases|iter|ensures|invariant_except_break)\s+(.*)$', full, re.S)
            if not m:
                raise Undecided('%s:%d: bad loop directive' % (path, lineno))
            k = int(m.group(1))
            kind = m.group(2)
            if kind in ('invariant', 'ensures', 'invariant_except_break'):
                tags, label, expr = parse_tagged(m.group(3), lineno, path)
                c = Clause(kind, tags, label, expr, lineno)
            else:
                c = Clause(kind, [], None, m.group(3).strip(), lineno)
            cur.loops.setdefault(k, []).append(c)
        elif word == 'closure':
            full, i = take_cont(i, rest)
            m = re.match(r'(\d+)\s+(sig|requires|ensures)\s+(.*)$', full, re.S)
            if not m:
                raise Undecided('%s:%d: bad closure directive' % (path, lineno))
            k = int(m.group(1))
            d = cur.closures.setdefault(k, {'sig': None, 'clauses': []})
            if m.group(2) == 'sig':
                d['sig'] = m.group(3).strip()
            else:
                tags, label, expr = parse_tagged(m.group(3), lineno, path)
                d['clauses'].append(Clause(m.group(2), tags, label, expr, lineno))
        elif word == 'hint':
            m = re.match(r'\[([^\]|]*)\|\s*([^\]]+)\]\s+(before|after|start|end)\s*("(?:[^"\\]|\\.)*")?\s*<<<$', rest)
            if not m:
                raise Undecided('%s:%d: bad hint directive: %s' % (path, lineno, rest))
            text, i = take_block(i)
            prefix = m.group(4)
            if prefix is not None:
                prefix = bytes(prefix[1:-1], 'utf-8').decode('unicode_escape').encode('latin-1').decode('utf-8')
            cur.hints.append((m.group(2).strip(), expand_tags(m.group(1).split()), m.group(3), prefix, text, lineno))
        else:
            raise Undecided('%s:%d: unknown item directive %r' % (path, lineno, word))
    if not u.name:
        raise Undecided('%s: missing unit name' % path)
    return u
