#!/bin/bash
# usage: seedverify.sh <dir with patch.diff and seed_demo.rs>
# confirms in a scratch worktree: patch applies, suite passes with it, demo fails with it, demo passes without it
set -u
D=$(realpath "$1")
WT=$(mktemp -d /tmp/sv-XXXXXX)
export CARGO_TARGET_DIR="$WT/target" CARGO_NET_OFFLINE=true
git -C /repo worktree add -q --detach "$WT" HEAD || exit 3
cleanup() { git -C /repo worktree remove --force "$WT" >/dev/null 2>&1; rm -rf "$WT"; }
trap cleanup EXIT
cd "$WT"; mkdir -p target
git apply "$D/patch.diff" || { echo "RESULT patch-does-not-apply"; exit 1; }
suite=$(cargo test --workspace --no-fail-fast --offline 2>&1 | grep -E "^test result" | tr '\n' ' ')
mkdir -p tests && cp "$D/seed_demo.rs" tests/seed_demo.rs
with=$(cargo test --offline --test seed_demo 2>&1 | grep -E "^test result" | tr '\n' ' ')
git checkout -q -- . 
without=$(cargo test --offline --test seed_demo 2>&1 | grep -E "^test result" | tr '\n' ' ')
echo "SUITE(with patch): $suite"
echo "DEMO(with patch): $with"
echo "DEMO(without patch): $without"
ok=1
echo "$suite" | grep -q "397 passed; 0 failed" || ok=0
echo "$suite" | grep -q "32 passed; 0 failed" || ok=0
echo "$with" | grep -q "FAILED" || ok=0
echo "$without" | grep -q "ok\." || ok=0
echo "$without" | grep -q "FAILED" && ok=0
echo "RESULT ok=$ok"
