#!/bin/bash
# usage: seedverify.sh <dir with patch.diff and seed_demo.rs>
# confirms in a scratch worktree: patch applies, suite passes with it, demo fails with it, demo passes without it
set -u
D=$(realpath "$1")
WT=$(mktemp -d /tmp/sv-XXXXXX)
export CARGO_TARGET_DIR="$WT/target" CARGO_NET_OFFLINE=true
git -C /repo worktree add -q --detach "$WT" HEAD || exit 3
cleanup() { git -C /repo worktree remove --force "$WT" >/dev/null 2>&1; rm -rf "$WT"; }
trap cleanup EXIT
cd "$WT"; mkdir -p target
git apply "$D/patch.diff" || { echo "RESULT patch-does-not-apply"; exit 1; }
# a seed may need a cargo feature for its demo (meta.json: "features": "async-vfs"); the pinned suite is always run as pinned
FEAT=$(python3 -c "import json,sys; print(json.load(open(sys.argv[1])).get('features',''))" "$D/meta.json" 2>/dev/null)
FARG=""; [ -n "$FEAT" ] && FARG="--features $FEAT"
suite=$(cargo test --workspace --no-fail-fast --offline 2>&1 | grep -E "^test result" | tr '\n' ' ')
mkdir -p tests && cp "$D/seed_demo.rs" tests/seed_demo.rs
with=$(cargo test --offline $FARG --test seed_demo 2>&1 | grep -E "^test result" | tr '\n' ' ')
git checkout -q -- . 
without=$(cargo test --offline $FARG --test seed_demo 2>&1 | grep -E "^test result" | tr '\n' ' ')
if [ -n "$FEAT" ]; then git apply "$D/patch.diff"; fsuite=$(cargo test --offline $FARG --lib 2>&1 | grep -E "^test result" | tr '\n' ' '); git checkout -q -- .; echo "SUITE(with patch, $FARG --lib): $fsuite"; echo "$fsuite" | grep -q " 0 failed" || ok_feat=0; fi
echo "SUITE(with patch): $suite"
echo "DEMO(with patch): $with"
echo "DEMO(without patch): $without"
ok=${ok_feat:-1}
echo "$suite" | grep -q "397 passed; 0 failed" || ok=0
echo "$suite" | grep -q "32 passed; 0 failed" || ok=0
echo "$with" | grep -q "FAILED" || ok=0
echo "$without" | grep -q "ok\." || ok=0
echo "$without" | grep -q "FAILED" && ok=0
echo "RESULT ok=$ok"
