#!/usr/bin/env python3
"""genonly.py <unit> : developer helper - generate build/<unit>.rs from /repo's tree without running Verus"""
import os, sys
sys.path.insert(0, os.path.dirname(os.path.abspath(__file__)))
import gen, vspec
u = os.path.join(gen.VERIF, 'units', sys.argv[1] + '.vspec')
g = gen.build(u)
os.makedirs(os.path.join(gen.VERIF, 'build'), exist_ok=True)
open(os.path.join(gen.VERIF, 'build', sys.argv[1] + '.rs'), 'w').write(g.text)
print('ok', len(g.text))
