"""Rule R30 (await erasure): the async port as sequential code.

`erase(text)` rewrites comment-stripped Rust source of src/async_vfs/** token by token and keeps every newline, so line numbers survive:
  R30a  `.await` is dropped (an await point is treated as a plain sequential call: one task, no interleaving between its steps)
  R30b  `async fn` -> `fn`; the attributes #[async_trait] / #[async_recursion] are dropped
  R30c  type names of the port are mapped to the names of the sync API (AsyncVfsPath -> VfsPath, AsyncFileSystem -> FileSystem, Async<X>FS ->
        <X>FS, AsyncMemoryFile / AsyncReadableFile / AsyncWritableFile / ... -> their sync names)
  R30d  `Stream<Item = T>` -> `Iterator<Item = T>`; `futures::stream::iter(x)` -> `x.into_iter()`; the auto-trait bound `Unpin` is
        dropped from `dyn` bounds
  R30f  `async { B }.await` -> `|| -> _ { B }()`: a block awaited on the spot is an immediately invoked closure (`return` and `?` leave the block
        in both); this is the shape the sync code has and that rule R16 lifts into a function
  R30g  the type `BoxFuture<'a, T>` (a boxed in-flight future, only stored and polled by the hand-written stream state machine) becomes the opaque
        type `PendingFuture<T>` (prelude/asyncport.rs: ghost "which call is in flight"); `Box<(dyn X)>` -> `Box<dyn X>`; `async_std::io::{copy, Error, ErrorKind}`
        are named `std::io::...` (Error and ErrorKind are re-exports of the std types)
  R30i  the hand-written stream state machine (`Stream::poll_next`): `Box::pin(async move { x.m().await })` -> `verif_future_m(x)` (a future that
        will perform the call `x.m()` when it is polled to completion); `f.poll_unpin(cx)` -> `f.verif_poll(world)` (either Pending, and then
        nothing has happened, or Ready with the outcome of the call under its proved contract); `s.poll_next_unpin(cx)` -> `verif_poll_stream(&mut s)`
        (Pending, or Ready(next item)); the receiver `self: Pin<&mut Self>` -> `&mut self`, `self.get_mut()` -> `self`, the parameter
        `cx: &mut Context<'_>` is dropped (wakers are scheduling, not behaviour)
  R30h  a `println!(..);` statement is dropped (the port's read_dir prints every entry to stdout; stdout is not part of any property)
  R30j  an async lock acquisition `h.read().await` / `h.write().await` (async_std RwLock) reads `h.read().unwrap()` / `h.write().unwrap()`, and
        `futures::executor::block_on(h.write())` likewise: this is the shape rule R4 (lock cell store-passing) knows; the async lock cannot be poisoned
  R30k  the write handle's poll delegations: `Pin::new(&mut x)` / `Pin::new(x)` -> `(&mut x)` / `(x)` (pinning an `Unpin` value is the identity); `c.poll_write(cx, buf)` /
        `c.poll_flush(cx)` / `c.poll_close(cx)` on the inner async Cursor -> `verif_cursor_poll_write(c, buf)` / `..._flush(c)` / `..._close(c)`
        (assumed: async_std's Cursor wraps std's and its polls are the blocking std calls inside `Poll::Ready`); `cx.waker().wake_by_ref();` is dropped
        (wakers are scheduling, not behaviour: a lost wake-up is not detectable here); `match self.fs.try_write() { Some(mut handle) => {..} None => {..} }`
        -> `match verif_try_lock() { true => { let mut handle = self.fs.write().unwrap(); .. } false => {..} }` (an arbitrary boolean says whether the
        lock was free; the acquisition itself then has the shape rule R4 knows)
  R30e  `let mut s = E; while let Some(x) = s.next() { B }` -> `for x in E { B }` when `s` occurs neither in B nor later in the enclosing
        block: this is the definition of `for` (repeated `next()` until `None`), and it lets the sync loop invariants speak about the port's loop
Nothing else changes. What this drops is stated in DESIGN section 3 (R30) and in the evidence (trusted base: "await points are transparent").
Returns (text, counts)."""
from lexer import lex

RENAME = {
    'AsyncVfsPath': 'VfsPath', 'AsyncFileSystem': 'FileSystem', 'AsyncVFS': 'VFS',
    'AsyncMemoryFS': 'MemoryFS', 'AsyncAltrootFS': 'AltrootFS', 'AsyncOverlayFS': 'OverlayFS', 'AsyncPhysicalFS': 'PhysicalFS',
    'AsyncMemoryFsImpl': 'MemoryFsImpl', 'AsyncMemoryFsHandle': 'MemoryFsHandle', 'AsyncMemoryFile': 'MemoryFile',
    'AsyncWritableFile': 'WritableFile', 'AsyncReadableFile': 'ReadableFile',
}


def erase(src):
    toks = lex(src)
    out = []
    counts = {'R30a': 0, 'R30b': 0, 'R30c': 0, 'R30d': 0, 'R30e': 0, 'R30f': 0, 'R30g': 0, 'R30h': 0, 'R30i': 0, 'R30j': 0, 'R30k': 0}
    pos = 0
    i = 0
    n = len(toks)

    def emit_gap(upto):
        nonlocal pos
        out.append(src[pos:upto])
        pos = upto

    def skip(tok_from, tok_to):
        """drop toks[tok_from..tok_to] but keep the newlines inside the dropped text"""
        nonlocal pos
        emit_gap(toks[tok_from].start)
        dropped = src[toks[tok_from].start:toks[tok_to].end]
        out.append('\n' * dropped.count('\n'))
        pos = toks[tok_to].end

    from lexer import match_close
    call_at = set()
    paren_close = set()
    while i < n:
        t = toks[i]
        if t.text == 'async' and i + 1 < n and toks[i + 1].text == '{':
            c = match_close(toks, i + 1)
            if c + 2 < n and toks[c + 1].text == '.' and toks[c + 2].text == 'await':
                emit_gap(t.start)
                out.append('|| -> _')
                pos = t.end
                call_at.add(c + 1)
                counts['R30f'] += 1
                i += 1
                continue
        if t.text == '.' and i in call_at:
            emit_gap(t.start)
            out.append('()')
            pos = toks[i + 1].end
            i += 2
            continue
        if t.text == '.' and i + 1 < n and toks[i + 1].text == 'await' and i >= 4 and toks[i - 1].text == ')' and toks[i - 2].text == '(' \
                and toks[i - 3].text in ('read', 'write') and toks[i - 4].text == '.' and toks[i - 5].text in ('handle', 'fs'):
            emit_gap(t.start)
            out.append('.unwrap()')
            pos = toks[i + 1].end
            counts['R30j'] += 1
            i += 2
            continue
        if t.text == 'futures' and i + 6 < n and [x.text for x in toks[i + 1:i + 7]] == ['::', 'executor', '::', 'block_on', '(', 'self']:
            c = match_close(toks, i + 5)
            emit_gap(t.start)
            out.append(src[toks[i + 6].start:toks[c].start] + '.unwrap()')
            pos = toks[c].end
            counts['R30j'] += 1
            i = c + 1
            continue
        if t.text == '.' and i + 1 < n and toks[i + 1].text == 'await':
            skip(i, i + 1)
            counts['R30a'] += 1
            i += 2
            continue
        if t.text == 'async' and i + 1 < n and toks[i + 1].text == 'fn':
            skip(i, i)
            counts['R30b'] += 1
            i += 1
            continue
        if t.text == '#' and i + 3 < n and toks[i + 1].text == '[' and toks[i + 2].text in ('async_trait', 'async_recursion') and toks[i + 3].text == ']':
            skip(i, i + 3)
            counts['R30b'] += 1
            i += 4
            continue
        if t.text == 'println' and i + 2 < n and toks[i + 1].text == '!' and toks[i + 2].text == '(':
            c = match_close(toks, i + 2)
            if c + 1 < n and toks[c + 1].text == ';':
                skip(i, c + 1)
                counts['R30h'] += 1
                i = c + 2
                continue
        if t.text == 'BoxFuture' and i + 3 < n and toks[i + 1].text == '<' and toks[i + 2].kind == 'lifetime' and toks[i + 3].text == ',':
            # BoxFuture<'a, T> -> PendingFuture<T>: only the lifetime argument is dropped
            emit_gap(t.start)
            out.append('PendingFuture<')
            pos = toks[i + 3].end
            counts['R30g'] += 1
            i += 4
            continue
        if t.text == '(' and i + 1 < n and toks[i + 1].text == 'dyn' and i >= 1 and toks[i - 1].text == '<':
            c = match_close(toks, i)
            emit_gap(t.start)
            pos = t.end
            paren_close.add(c)
            counts['R30g'] += 1
            i += 1
            continue
        if t.text == ')' and i in paren_close:
            emit_gap(t.start)
            pos = t.end
            i += 1
            continue
        if t.text == 'Box' and i + 6 < n and [x.text for x in toks[i + 1:i + 7]] == ['::', 'pin', '(', 'async', 'move', '{']:
            c = match_close(toks, i + 6)
            inner = toks[i + 7:c]
            texts = [x.text for x in inner]
            if len(inner) == 7 and inner[0].kind == 'ident' and texts[1] == '.' and inner[2].kind == 'ident' and texts[3:] == ['(', ')', '.', 'await'] and toks[c + 1].text == ')':
                emit_gap(t.start)
                out.append('verif_future_%s(%s)' % (texts[2], texts[0]))
                pos = toks[c + 1].end
                counts['R30i'] += 1
                i = c + 2
                continue
        if t.kind == 'ident' and t.text == 'poll_unpin' and i >= 2 and toks[i - 1].text == '.' and i + 3 < n and [x.text for x in toks[i + 1:i + 4]] == ['(', 'cx', ')']:
            emit_gap(t.start)
            out.append('verif_poll(world)')
            pos = toks[i + 3].end
            counts['R30i'] += 1
            i += 4
            continue
        if t.text == 'self' and i + 8 < n and [x.text for x in toks[i + 1:i + 8]] == [':', 'Pin', '<', '&', 'mut', 'Self', '>']:
            # `self: Pin<&mut Self>, cx: &mut Context<'_>` -> `&mut self`
            j = i + 8
            if [x.text for x in toks[j:j + 5]] in ([',', 'cx', ':', '&', 'mut'], [',', '_cx', ':', '&', 'mut']) and toks[j + 5].text == 'Context':
                k = j + 6
                if toks[k].text == '<':
                    while toks[k].text != '>':
                        k += 1
                    k += 1
                emit_gap(t.start)
                out.append('&mut self')
                pos = toks[k - 1].end
                counts['R30i'] += 1
                i = k
                continue
        if t.text == 'self' and i + 4 < n and [x.text for x in toks[i + 1:i + 5]] == ['.', 'get_mut', '(', ')']:
            emit_gap(t.start)
            out.append('self')
            pos = toks[i + 4].end
            counts['R30i'] += 1
            i += 5
            continue
        if t.text == 'async_std' and i + 4 < n and [x.text for x in toks[i + 1:i + 4]] == ['::', 'io', '::'] and toks[i + 4].text in ('copy', 'Error', 'ErrorKind'):
            emit_gap(t.start)
            out.append('std')
            pos = t.end
            counts['R30g'] += 1
            i += 1
            continue
        if t.kind == 'ident' and t.text in RENAME:
            emit_gap(t.start)
            out.append(RENAME[t.text])
            pos = t.end
            counts['R30c'] += 1
            i += 1
            continue
        if t.text == 'Stream' and i + 2 < n and toks[i + 1].text == '<' and toks[i + 2].text == 'Item':
            emit_gap(t.start)
            out.append('Iterator')
            pos = t.end
            counts['R30d'] += 1
            i += 1
            continue
        if t.text == 'futures' and i + 7 < n and [x.text for x in toks[i + 1:i + 6]] == ['::', 'stream', '::', 'iter', '('] \
                and toks[i + 6].kind == 'ident' and toks[i + 7].text == ')':
            # futures::stream::iter(x): the stream over an iterable is its iterator -> x.into_iter()
            emit_gap(t.start)
            out.append(toks[i + 6].text + '.into_iter()')
            pos = toks[i + 7].end
            counts['R30d'] += 1
            i += 8
            continue
        if t.text == '+' and i + 1 < n and toks[i + 1].text == 'Unpin':
            skip(i, i + 1)
            counts['R30d'] += 1
            i += 2
            continue
        if t.text == 'Unpin' and i + 1 < n and toks[i + 1].text == '+':
            skip(i, i + 1)
            counts['R30d'] += 1
            i += 2
            continue
        i += 1
    out.append(src[pos:])
    text = ''.join(out)
    import re
    text, k = re.subn(r'\b([A-Za-z_][A-Za-z0-9_]*(?:\.[A-Za-z_][A-Za-z0-9_]*)*)\.poll_next_unpin\(cx\)', r'verif_poll_stream(&mut \1)', text)
    counts['R30i'] += k
    if re.search(r'\blet\s+this\s*=\s*self\s*;', text):
        # `let this = self.get_mut();` (now `let this = self;`): the alias is dropped and `this` reads `self`
        text = re.sub(r'\blet\s+this\s*=\s*self\s*;', '', text)
        text, k = re.subn(r'\bthis\b', 'self', text)
        counts['R30i'] += k
    # R30k: the write handle's poll delegations
    k_total = 0
    text, k = re.subn(r'\bPin::new\(\s*((?:&mut\s+)?[A-Za-z_][A-Za-z0-9_.]*)\s*\)', r'(\1)', text)
    k_total += k
    text, k = re.subn(r'(\((?:&mut\s+)?[A-Za-z_][A-Za-z0-9_.]*\)|\b[a-z_][A-Za-z0-9_]*)\.poll_(write|flush|close)\(\s*cx\s*(,\s*)?', r'verif_cursor_poll_\2(\1\3', text)
    k_total += k
    text, k = re.subn(r'\bcx\.waker\(\)\.wake_by_ref\(\);', '', text)
    k_total += k
    m = re.search(r'match\s+self\.fs\.try_write\(\)\s*\{(\s*)Some\(mut\s+handle\)\s*=>\s*\{', text)
    if m:
        rest = text[m.end():]
        m2 = re.search(r'\bNone\s*=>', rest)
        if m2:
            rest = rest[:m2.start()] + 'false =>' + rest[m2.end():]
            text = text[:m.start()] + 'match verif_try_lock() {' + m.group(1) + 'true => { let mut handle = self.fs.write().unwrap();' + rest
            k_total += 1
    counts['R30k'] = k_total
    text, counts['R30e'] = while_let_to_for(text)
    return text, counts


def while_let_to_for(text):
    from lexer import match_close
    n = 0
    while True:
        toks = lex(text)
        hit = None
        for i, t in enumerate(toks):
            # let mut S = E ; while let Some ( X ) = S . next ( ) {
            if t.text != 'let' or i + 3 >= len(toks) or toks[i + 1].text != 'mut' or toks[i + 2].kind != 'ident' or toks[i + 3].text != '=':
                continue
            sname = toks[i + 2].text
            # end of the initialiser: the next ';' at depth 0
            depth = 0
            j = i + 4
            while j < len(toks):
                x = toks[j].text
                if x in ('(', '[', '{'):
                    depth += 1
                elif x in (')', ']', '}'):
                    depth -= 1
                    if depth < 0:
                        break
                elif x == ';' and depth == 0:
                    break
                j += 1
            if j >= len(toks) or toks[j].text != ';':
                continue
            w = j + 1
            pat = ['while', 'let', 'Some', '(']
            if [x.text for x in toks[w:w + 4]] != pat:
                continue
            c = match_close(toks, w + 3)
            tail = [x.text for x in toks[c + 1:c + 7]]
            if tail != ['=', sname, '.', 'next', '(', ')'] or toks[c + 7].text != '{':
                continue
            bopen = c + 7
            bclose = match_close(toks, bopen)
            if any(x.kind == 'ident' and x.text == sname for x in toks[bopen:bclose + 1]):
                continue
            # rest of the enclosing block
            depth = 0
            k = bclose + 1
            used = False
            while k < len(toks):
                x = toks[k].text
                if x in ('(', '[', '{'):
                    depth += 1
                elif x in (')', ']', '}'):
                    depth -= 1
                    if depth < 0:
                        break
                elif toks[k].kind == 'ident' and x == sname:
                    used = True
                    break
                k += 1
            if used:
                continue
            init = text[toks[i + 3].end:toks[j].start].strip()
            xpat = text[toks[w + 3].end:toks[c].start].strip()
            gap = text[toks[i].start:toks[bopen].start]
            new = 'for %s in %s ' % (xpat, init) + '\n' * gap.count('\n')
            hit = (toks[i].start, toks[bopen].start, new)
            break
        if not hit:
            return text, n
        text = text[:hit[0]] + hit[2] + text[hit[1]:]
        n += 1
