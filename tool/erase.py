"""Rule R30 (await erasure): the async port as sequential code.

`erase(text)` rewrites comment-stripped Rust source of src/async_vfs/** token by token and keeps every newline, so line numbers survive:
  R30a  `.await` is dropped (an await point is treated as a plain sequential call: one task, no interleaving between its steps)
  R30b  `async fn` -> `fn`; the attributes #[async_trait] / #[async_recursion] are dropped
  R30c  type names of the port are mapped to the names of the sync API (AsyncVfsPath -> VfsPath, AsyncFileSystem -> FileSystem, Async<X>FS ->
        <X>FS, AsyncMemoryFile / AsyncReadableFile / AsyncWritableFile / ... -> their sync names)
  R30d  `Stream<Item = T>` -> `Iterator<Item = T>`; `futures::stream::iter(x)` -> `x.into_iter()`; the auto-trait bound `Unpin` is
        dropped from `dyn` bounds
  R30f  `async { B }.await` -> `|| -> _ { B }()`: a block awaited on the spot is an immediately invoked closure (`return` and `?` leave the block
        in both); this is the shape the sync code has and that rule R16 lifts into a function
  R30g  the type `BoxFuture<'a, T>` (a boxed in-flight future, only stored and polled by the hand-written stream state machine) becomes the opaque
        type `PendingFuture` (prelude/asyncport.rs); `async_std::io::copy` is named `std::io::copy`
  R30h  a `println!(..);` statement is dropped (the port's read_dir prints every entry to stdout; stdout is not part of any property)
  R30e  `let mut s = E; while let Some(x) = s.next() { B }` -> `for x in E { B }` when `s` occurs neither in B nor later in the enclosing
        block: this is the definition of `for` (repeated `next()` until `None`), and it lets the sync loop invariants speak about the port's loop
Nothing else changes. What this drops is stated in DESIGN section 3 (R30) and in the evidence (trusted base: "await points are transparent").
Returns (text, counts)."""
from lexer import lex

RENAME = {
    'AsyncVfsPath': 'VfsPath', 'AsyncFileSystem': 'FileSystem', 'AsyncVFS': 'VFS',
    'AsyncMemoryFS': 'MemoryFS', 'AsyncAltrootFS': 'AltrootFS', 'AsyncOverlayFS': 'OverlayFS', 'AsyncPhysicalFS': 'PhysicalFS',
    'AsyncMemoryFsImpl': 'MemoryFsImpl', 'AsyncMemoryFsHandle': 'MemoryFsHandle', 'AsyncMemoryFile': 'MemoryFile',
    'AsyncWritableFile': 'WritableFile', 'AsyncReadableFile': 'ReadableFile',
}


def erase(src):
    toks = lex(src)
    out = []
    counts = {'R30a': 0, 'R30b': 0, 'R30c': 0, 'R30d': 0, 'R30e': 0, 'R30f': 0, 'R30g': 0, 'R30h': 0}
    pos = 0
    i = 0
    n = len(toks)

    def emit_gap(upto):
        nonlocal pos
        out.append(src[pos:upto])
        pos = upto

    def skip(tok_from, tok_to):
        """drop toks[tok_from..tok_to] but keep the newlines inside the dropped text"""
        nonlocal pos
        emit_gap(toks[tok_from].start)
        dropped = src[toks[tok_from].start:toks[tok_to].end]
        out.append('\n' * dropped.count('\n'))
        pos = toks[tok_to].end

    from lexer import match_close
    call_at = set()
    while i < n:
        t = toks[i]
        if t.text == 'async' and i + 1 < n and toks[i + 1].text == '{':
            c = match_close(toks, i + 1)
            if c + 2 < n and toks[c + 1].text == '.' and toks[c + 2].text == 'await':
                emit_gap(t.start)
                out.append('|| -> _')
                pos = t.end
                call_at.add(c + 1)
                counts['R30f'] += 1
                i += 1
                continue
        if t.text == '.' and i in call_at:
            emit_gap(t.start)
            out.append('()')
            pos = toks[i + 1].end
            i += 2
            continue
        if t.text == '.' and i + 1 < n and toks[i + 1].text == 'await':
            skip(i, i + 1)
            counts['R30a'] += 1
            i += 2
            continue
        if t.text == 'async' and i + 1 < n and toks[i + 1].text == 'fn':
            skip(i, i)
            counts['R30b'] += 1
            i += 1
            continue
        if t.text == '#' and i + 3 < n and toks[i + 1].text == '[' and toks[i + 2].text in ('async_trait', 'async_recursion') and toks[i + 3].text == ']':
            skip(i, i + 3)
            counts['R30b'] += 1
            i += 4
            continue
        if t.text == 'println' and i + 2 < n and toks[i + 1].text == '!' and toks[i + 2].text == '(':
            c = match_close(toks, i + 2)
            if c + 1 < n and toks[c + 1].text == ';':
                skip(i, c + 1)
                counts['R30h'] += 1
                i = c + 2
                continue
        if t.text == 'BoxFuture' and i + 1 < n and toks[i + 1].text == '<':
            depth = 0
            j = i + 1
            while j < n:
                x = toks[j].text
                if x == '<':
                    depth += 1
                elif x == '>':
                    depth -= 1
                elif x == '>>':
                    depth -= 2
                if depth <= 0:
                    break
                j += 1
            emit_gap(t.start)
            out.append('PendingFuture' + ('>' if depth < 0 else ''))
            dropped = src[t.start:toks[j].end]
            out.append('\n' * dropped.count('\n'))
            pos = toks[j].end
            counts['R30g'] += 1
            i = j + 1
            continue
        if t.text == 'async_std' and i + 4 < n and [x.text for x in toks[i + 1:i + 5]] == ['::', 'io', '::', 'copy']:
            emit_gap(t.start)
            out.append('std')
            pos = t.end
            counts['R30g'] += 1
            i += 1
            continue
        if t.kind == 'ident' and t.text in RENAME:
            emit_gap(t.start)
            out.append(RENAME[t.text])
            pos = t.end
            counts['R30c'] += 1
            i += 1
            continue
        if t.text == 'Stream' and i + 2 < n and toks[i + 1].text == '<' and toks[i + 2].text == 'Item':
            emit_gap(t.start)
            out.append('Iterator')
            pos = t.end
            counts['R30d'] += 1
            i += 1
            continue
        if t.text == 'futures' and i + 7 < n and [x.text for x in toks[i + 1:i + 6]] == ['::', 'stream', '::', 'iter', '('] \
                and toks[i + 6].kind == 'ident' and toks[i + 7].text == ')':
            # futures::stream::iter(x): the stream over an iterable is its iterator -> x.into_iter()
            emit_gap(t.start)
            out.append(toks[i + 6].text + '.into_iter()')
            pos = toks[i + 7].end
            counts['R30d'] += 1
            i += 8
            continue
        if t.text == '+' and i + 1 < n and toks[i + 1].text == 'Unpin':
            skip(i, i + 1)
            counts['R30d'] += 1
            i += 2
            continue
        if t.text == 'Unpin' and i + 1 < n and toks[i + 1].text == '+':
            skip(i, i + 1)
            counts['R30d'] += 1
            i += 2
            continue
        i += 1
    out.append(src[pos:])
    text = ''.join(out)
    text, counts['R30e'] = while_let_to_for(text)
    return text, counts


def while_let_to_for(text):
    from lexer import match_close
    n = 0
    while True:
        toks = lex(text)
        hit = None
        for i, t in enumerate(toks):
            # let mut S = E ; while let Some ( X ) = S . next ( ) {
            if t.text != 'let' or i + 3 >= len(toks) or toks[i + 1].text != 'mut' or toks[i + 2].kind != 'ident' or toks[i + 3].text != '=':
                continue
            sname = toks[i + 2].text
            # end of the initialiser: the next ';' at depth 0
            depth = 0
            j = i + 4
            while j < len(toks):
                x = toks[j].text
                if x in ('(', '[', '{'):
                    depth += 1
                elif x in (')', ']', '}'):
                    depth -= 1
                    if depth < 0:
                        break
                elif x == ';' and depth == 0:
                    break
                j += 1
            if j >= len(toks) or toks[j].text != ';':
                continue
            w = j + 1
            pat = ['while', 'let', 'Some', '(']
            if [x.text for x in toks[w:w + 4]] != pat:
                continue
            c = match_close(toks, w + 3)
            tail = [x.text for x in toks[c + 1:c + 7]]
            if tail != ['=', sname, '.', 'next', '(', ')'] or toks[c + 7].text != '{':
                continue
            bopen = c + 7
            bclose = match_close(toks, bopen)
            if any(x.kind == 'ident' and x.text == sname for x in toks[bopen:bclose + 1]):
                continue
            # rest of the enclosing block
            depth = 0
            k = bclose + 1
            used = False
            while k < len(toks):
                x = toks[k].text
                if x in ('(', '[', '{'):
                    depth += 1
                elif x in (')', ']', '}'):
                    depth -= 1
                    if depth < 0:
                        break
                elif toks[k].kind == 'ident' and x == sname:
                    used = True
                    break
                k += 1
            if used:
                continue
            init = text[toks[i + 3].end:toks[j].start].strip()
            xpat = text[toks[w + 3].end:toks[c].start].strip()
            gap = text[toks[i].start:toks[bopen].start]
            new = 'for %s in %s ' % (xpat, init) + '\n' * gap.count('\n')
            hit = (toks[i].start, toks[bopen].start, new)
            break
        if not hit:
            return text, n
        text = text[:hit[0]] + hit[2] + text[hit[1]:]
        n += 1
