"""Run Verus on a generated unit file and attribute diagnostics to clauses / implicit obligations."""
import json
import os
import re
import subprocess
import time
import gen
from extract import Undecided

VERIF = gen.VERIF
BUILD = os.path.join(os.environ.get('VERIF_SCRATCH') or VERIF, 'build')

PROBE = '''
// ======== vacuity probe: must FAIL (if it verifies, the trusted prelude is contradictory) ========
proof fn vacuity_probe() // @@fn:raw::vacuity_probe
    ensures false, // @@vacuity.probe
{
    %s
}
'''


class UnitResult:
    def __init__(self, name):
        self.name = name
        self.gen = None
        self.obligations = {}     # id -> dict(kind, tags, fn, text)
        self.failed = {}          # id -> list of diagnostics (dict)
        self.fn_times = {}        # generated fn name -> micros
        self.fn_success = {}
        self.wall = 0.0
        self.verus_summary = {}
        self.cmd = ''
        self.rlimit_hits = []
        self.probe_failed = False


def broadcast_names(text):
    return re.findall(r'broadcast\s+(?:axiom|proof)\s+fn\s+([A-Za-z0-9_]+)', text)


def run_verus(path, rlimit=None, seed=None, threads=4, extra=(), multiple_errors=50):
    cmd = ['verus', path, '--output-json', '--error-format=json', '--time-expanded', '--multiple-errors', str(multiple_errors),
           '--num-threads', str(threads), '--no-report-long-running']
    if rlimit:
        cmd += ['--rlimit', str(rlimit)]
    if seed is not None:
        cmd += ['--smt-option', 'smt.random_seed=%d' % seed]
    cmd += list(extra)
    env = dict(os.environ)
    t0 = time.time()
    p = subprocess.run(cmd, stdout=subprocess.PIPE, stderr=subprocess.PIPE, env=env, cwd=BUILD, timeout=1800)
    wall = time.time() - t0
    out = p.stdout.decode('utf-8', 'replace')
    err = p.stderr.decode('utf-8', 'replace')
    try:
        js = json.loads(out[out.index('{'):]) if '{' in out else {}
    except Exception:
        js = {}
    diags = []
    other = []
    for ln in err.split('\n'):
        ln = ln.strip()
        if ln.startswith('{'):
            try:
                d = json.loads(ln)
                diags.append(d)
                continue
            except Exception:
                pass
        if ln:
            other.append(ln)
    return p.returncode, js, diags, other, wall, ' '.join(cmd)


def attribute(res, g, errors):
    """attribute Verus error diagnostics of the file generated as `g` to obligations of `res`"""
    for d in errors:
        msg = d.get('message', '')
        if msg.startswith('aborting due to'):
            continue
        spans = d.get('spans', [])
        labels = []
        prim_fn = None
        pointed = [sp for sp in spans if (sp.get('label') or '').startswith(('failed this', 'failed precondition', 'assertion failed'))]
        for sp in spans:
            lab = sp.get('label') or ''
            if pointed and sp not in pointed:
                pass
            elif not sp.get('is_primary') and lab.startswith(('at the end of', 'at this exit', 'at this loop exit')):
                pass
            else:
                for ln in range(sp['line_start'], sp['line_end'] + 1):
                    if ln in g.line_label:
                        labels.append(g.line_label[ln])
            if sp.get('is_primary') and prim_fn is None:
                prim_fn = g.line_fn.get(sp['line_start'])
            if lab.startswith(('at the end of', 'at this exit', 'at this loop exit')):
                prim_fn = g.line_fn.get(sp['line_start'])
        if prim_fn is None and spans:
            prim_fn = g.line_fn.get(spans[0]['line_start'])
        entry = {'message': msg, 'fn': prim_fn, 'rendered': d.get('rendered', ''), 'labels': labels}
        if 'rlimit' in msg.lower() or 'resource limit' in msg.lower():
            res.rlimit_hits.append(entry)
            continue
        if 'vacuity.probe' in labels or prim_fn == 'raw::vacuity_probe':
            res.probe_failed = True
            continue
        own = [l for l in labels if l in g.clauses and g.clauses[l]['fn'] == prim_fn]
        if own:
            ids = own
        elif prim_fn and ('implicit:' + prim_fn) in res.obligations:
            ids = ['implicit:' + prim_fn]
        elif prim_fn and g.clauses and any(c['fn'] == prim_fn for c in g.clauses.values()):
            # an implicit failure inside a strict twin counts against its single clause
            ids = [l for l, c in g.clauses.items() if c['fn'] == prim_fn]
        elif prim_fn:
            ids = ['raw:' + prim_fn]
        else:
            ids = ['unattributed']
        for i in ids:
            res.failed.setdefault(i, []).append(entry)


def fn_times(res, js):
    try:
        for m in js['times-ms']['smt']['smt-run-module-times']:
            for fb in m.get('function-breakdown', []):
                res.fn_times[fb['function']] = res.fn_times.get(fb['function'], 0) + fb.get('time-micros', 0)
                res.fn_success[fb['function']] = fb.get('success', True) and res.fn_success.get(fb['function'], True)
    except Exception:
        pass


def run_unit(unit_path, repo=None, rlimit=None, seed=None, threads=4, twins=True):
    name = os.path.basename(unit_path)[:-len('.vspec')]
    res = UnitResult(name)
    g0 = gen.build(unit_path, repo)
    names = broadcast_names(g0.text)
    probe = PROBE % (('broadcast use %s;' % ', '.join(names)) if names else '')
    g = gen.build(unit_path, repo, extra_tail=probe)
    res.gen = g
    os.makedirs(BUILD, exist_ok=True)
    out_path = os.path.join(BUILD, name + '.rs')
    with open(out_path, 'w', encoding='utf-8') as f:
        f.write(g.text)
    # strict twins (clauses listed / expected as findings) go to a second file, run concurrently with low effort per clause
    gt = None
    twin_future = None
    if twins and g.has_strict:
        gt = gen.build(unit_path, repo, twins_only=True)
        tpath = os.path.join(BUILD, name + '__strict.rs')
        with open(tpath, 'w', encoding='utf-8') as f:
            f.write(gt.text)
        import concurrent.futures as cf
        ex = cf.ThreadPoolExecutor(max_workers=1)
        twin_future = ex.submit(run_verus, tpath, 3, seed, max(2, threads // 2), (), 0)
    rc, js, diags, other, wall, cmd = run_verus(out_path, rlimit=rlimit, seed=seed, threads=threads)
    res.wall = wall
    res.cmd = cmd
    vr = js.get('verification-results', {})
    res.verus_summary = vr
    errors = [d for d in diags if d.get('level') == 'error']
    if not vr or vr.get('encountered-vir-error') or (not vr.get('success') and vr.get('errors', 0) == 0 and vr.get('verified', 0) == 0):
        msgs = [d.get('rendered') or d.get('message', '') for d in errors][:6]
        raise Undecided('verus front-end error in unit %s:\n%s\n%s' % (name, '\n'.join(msgs), '\n'.join(other[:10])))
    # obligations: labelled clauses + one implicit obligation per exec/proof function with a body under contract
    for label, c in g.clauses.items():
        res.obligations[label] = {'kind': c['kind'], 'tags': c['tags'], 'fn': c['fn'], 'text': c['expr'], 'unit': name}
    for f in g.functions:
        if f['kind'] == 'fn' and f.get('has_body') and not f.get('external_body') and not f.get('included_from'):
            res.obligations['implicit:' + f['name']] = {'kind': 'implicit', 'tags': sorted(set(['C13'] + f['props'])), 'fn': f['name'],
                                                         'text': 'panic-freedom of %s: overflow, bounds, char boundaries, unwrap/expect, callee preconditions, termination' % f['name'],
                                                         'unit': name}
    fn_times(res, js)
    attribute(res, g, errors)
    if twin_future is not None:
        rc2, js2, diags2, other2, wall2, cmd2 = twin_future.result()
        vr2 = js2.get('verification-results', {})
        errors2 = [d for d in diags2 if d.get('level') == 'error']
        if not vr2 or vr2.get('encountered-vir-error') or (not vr2.get('success') and vr2.get('errors', 0) == 0 and vr2.get('verified', 0) == 0):
            msgs = [d.get('rendered') or d.get('message', '') for d in errors2][:6]
            raise Undecided('verus front-end error in strict twins of unit %s:\n%s' % (name, '\n'.join(msgs)))
        for label, c in gt.clauses.items():
            res.obligations[label] = {'kind': c['kind'], 'tags': c['tags'], 'fn': c['fn'], 'text': c['expr'], 'unit': name}
        res.probe_failed_main = res.probe_failed
        attribute(res, gt, errors2)
        fn_times(res, js2)
        res.cmd += ' ; ' + cmd2
        res.wall = max(wall, wall2)
        for t in gt.trusted:
            if t not in g.trusted:
                g.trusted.append(t)
    # a lemma of the spec library that fails in a run where something else failed is re-checked on its own: a failing query can disturb
    # the queries that follow it in the same solver process, and a lemma's verdict must not depend on its neighbours
    rawfail = [k for k in res.failed if k.startswith('raw:raw::')]
    if rawfail and len(rawfail) <= 12:
        for k in rawfail:
            fn = k[len('raw:raw::'):]
            rc3, js3, diags3, other3, wall3, cmd3 = run_verus(out_path, rlimit=rlimit, seed=seed, threads=2, extra=('--verify-function', fn, '--verify-root'))
            vr3 = js3.get('verification-results', {})
            if vr3 and not vr3.get('encountered-error') and not vr3.get('encountered-vir-error') and vr3.get('verified', 0) >= 1 and vr3.get('errors', 1) == 0:
                del res.failed[k]
                res.rlimit_hits = [h for h in res.rlimit_hits if h.get('fn') != 'raw::' + fn]
    # a resource-limit hit decides nothing about any obligation of that function: none of them counts as discharged
    for h in res.rlimit_hits:
        for oid, ob in res.obligations.items():
            if ob['fn'] == h['fn'] and oid not in res.failed:
                res.failed[oid] = [dict(h, rlimit=True)]
    if not res.probe_failed:
        raise Undecided('vacuity guard tripped in unit %s: `ensures false` verified with all prelude axioms in scope' % name)
    res.returncode = rc
    return res
