"""Assemble one Verus file per unit: prelude + spec + mechanically extracted & rewritten items + spliced contracts."""
import os
import re
from lexer import lex, match_close
from extract import SourceFile, Undecided, norm, norm_sp, sha
import rules as R
import vspec

VERIF = os.path.dirname(os.path.dirname(os.path.abspath(__file__)))
REPO = os.environ.get('VERIF_REPO', '/repo')

HEADER = '''#![feature(allocator_api)]
#![feature(sized_hierarchy)]
#![feature(pattern)]
#![allow(unused_imports, unused_variables, unused_mut, dead_code, unused_assignments, non_snake_case, unreachable_code, unused_parens, unused_braces)]
'''


class Ctx:
    def __init__(self, unit):
        self.rule_args = unit.rule_args
        self.unit = unit
        self.source_fns = {}
        self.lifted = {}
        self.repo = REPO

    def add_source(self, sf):
        def walk(items):
            for it in items:
                if it.kind == 'fn':
                    self.source_fns.setdefault(it.name, '')
                    self.source_fns[it.name] += (it.body or '')
                walk(it.children)
        walk(sf.items)


def mark(text, label):
    """append a clause marker to every line of text"""
    out = []
    for ln in text.split('\n'):
        if '//' in ln and '@@' in ln:
            out.append(ln)
        else:
            out.append('%s // @@%s' % (ln.rstrip(), label))
    return '\n'.join(out)


def clause_block(kind, clauses, indent):
    if not clauses:
        return ''
    lines = ['%s%s' % (indent, kind)]
    for c in clauses:
        body = c.expr.strip()
        if body.endswith(','):
            body = body[:-1]
        if c.label:
            lines.append(mark('%s    %s,' % (indent, body), c.label))
        else:
            lines.append('%s    %s,' % (indent, body))
    return '\n'.join(lines) + '\n'


def name_return(sig, ret):
    toks = lex(sig)
    i = 0
    while toks[i].text != 'fn':
        i += 1
    i += 2
    if toks[i].text == '<':
        depth = 0
        while True:
            if toks[i].text == '<':
                depth += 1
            elif toks[i].text == '>':
                depth -= 1
                if depth == 0:
                    break
            elif toks[i].text == '>>':
                depth -= 2
                if depth <= 0:
                    break
            i += 1
        i += 1
    assert toks[i].text == '(', sig
    j = match_close(toks, i)
    if j + 1 < len(toks) and toks[j + 1].text == '->':
        k = j + 2
        end = len(sig)
        for m in range(k, len(toks)):
            if toks[m].kind == 'ident' and toks[m].text == 'where':
                end = toks[m].start
                break
        rtype = sig[toks[k].start:end].strip()
        return sig[:toks[j + 1].start] + '-> (%s: %s) ' % (ret, rtype) + sig[end:]
    else:
        raise Undecided('ret given for fn without return type: %s' % norm_sp(sig))


def stmt_starts(toks):
    """indices of tokens that start a statement (after '{', ';', '}')"""
    out = []
    for i, t in enumerate(toks):
        if i == 0:
            continue
        p = toks[i - 1].text
        if p in ('{', ';', '}') and toks[i - 1].kind == 'punct':
            out.append(i)
    return out


def stmt_end(toks, i):
    """index of last token of the statement starting at toks[i]"""
    depth = 0
    j = i
    while j < len(toks):
        x = toks[j]
        if x.kind == 'punct':
            if x.text in ('(', '[', '{'):
                k = match_close(toks, j)
                if x.text == '{' and depth == 0:
                    nxt = toks[k + 1].text if k + 1 < len(toks) else ''
                    if nxt not in ('else', '.', '?', ';', ')', ',') and not (toks[k + 1].kind == 'punct' and nxt in ('==', '!=', '&&', '||')):
                        # block-like statement ends here, unless it is a `let x = match {..};`
                        # look back: if statement began with `let`, continue to ';'
                        if toks[i].text != 'let' and toks[i].text != 'return':
                            return k
                j = k
            elif x.text == ';' and depth == 0:
                return j
            elif x.text in (')', ']', '}'):
                return j - 1
        j += 1
    return len(toks) - 1


LOOP_KW = ('while', 'loop', 'for')


def find_loops(toks):
    """list of (kw_idx, body_open_idx) in source order"""
    out = []
    for i, t in enumerate(toks):
        if t.kind == 'ident' and t.text in LOOP_KW:
            prev = toks[i - 1] if i else None
            if prev is not None and not (prev.text in ('{', ';', '}', '=', ':', ')') or prev.kind == 'lifetime'):
                continue
            if t.text == 'for' and prev is not None and prev.text not in ('{', ';', '}', ')', ':'):
                continue
            if t.text == 'loop':
                j = i + 1
            else:
                j = i + 1
                while j < len(toks) and toks[j].text != '{':
                    if toks[j].text in ('(', '['):
                        j = match_close(toks, j)
                    j += 1
            if j < len(toks) and toks[j].text == '{':
                out.append((i, j))
    return out


def find_closures(toks):
    """list of dicts: start idx (first '|'), params_end idx (closing '|'), body range"""
    out = []
    i = 0
    while i < len(toks):
        t = toks[i]
        if t.kind == 'punct' and t.text in ('|', '||') and i > 0:
            prev = toks[i - 1]
            if prev.text in ('(', ',', '=', '{', ';', 'move', 'return', '=>') :
                if t.text == '||':
                    pe = i
                else:
                    pe = i + 1
                    while toks[pe].text != '|':
                        if toks[pe].text in ('(', '['):
                            pe = match_close(toks, pe)
                        pe += 1
                j = pe + 1
                # optional return type
                if toks[j].text == '->':
                    while toks[j].text != '{':
                        j += 1
                if toks[j].text == '{':
                    be = match_close(toks, j)
                    out.append({'start': i, 'pe': pe, 'bstart': j, 'bend': be, 'block': True})
                    # do not skip nested closures inside
                else:
                    # expression body: to depth-0 ',' or closer
                    k = j
                    while k < len(toks):
                        x = toks[k].text
                        if x in ('(', '[', '{'):
                            k = match_close(toks, k)
                        elif x in (')', ']', '}', ',', ';'):
                            break
                        k += 1
                    out.append({'start': i, 'pe': pe, 'bstart': j, 'bend': k - 1, 'block': False})
        i += 1
    return out


def splice_body(body, spec, where):
    """insert loop invariants, closure annotations and hints into a (rewritten) function body"""
    toks = lex(body)
    edits = []  # (pos, text) insertions ; (start, end, text) replacements
    # loops
    if spec.loops:
        loops = find_loops(toks)
        for n, clauses in spec.loops.items():
            if n < 1 or n > len(loops):
                raise Undecided('lost anchor: loop %d in %s (found %d loops)' % (n, where, len(loops)))
            kw, bo = loops[n - 1]
            inv = [c for c in clauses if c.kind == 'invariant']
            ieb = [c for c in clauses if c.kind == 'invariant_except_break']
            ens = [c for c in clauses if c.kind == 'ensures']
            dec = [c for c in clauses if c.kind == 'decreases']
            it = [c for c in clauses if c.kind == 'iter']
            txt = '\n' + clause_block('invariant_except_break', ieb, '            ') + clause_block('invariant', inv, '            ') + clause_block('ensures', ens, '            ') + clause_block('decreases', dec, '            ') + '        '
            edits.append((toks[bo].start, toks[bo].start, txt))
            if it:
                if toks[kw].text != 'for':
                    raise Undecided('loop %d in %s: iter on non-for loop' % (n, where))
                j = kw
                while not (toks[j].kind == 'ident' and toks[j].text == 'in'):
                    j += 1
                edits.append((toks[j].end, toks[j].end, ' %s:' % it[0].expr))
    # closures
    if spec.closures:
        cls = find_closures(toks)
        for n, d in spec.closures.items():
            if n < 1 or n > len(cls):
                raise Undecided('lost anchor: closure %d in %s (found %d closures)' % (n, where, len(cls)))
            c = cls[n - 1]
            req = [x for x in d['clauses'] if x.kind == 'requires']
            ens = [x for x in d['clauses'] if x.kind == 'ensures']
            contract = '\n' + clause_block('requires', req, '                ') + clause_block('ensures', ens, '                ') + '            '
            if d['sig']:
                edits.append((toks[c['start']].start, toks[c['bstart']].start, d['sig'] + ' ' + contract))
            else:
                edits.append((toks[c['bstart']].start, toks[c['bstart']].start, contract))
            if not c['block']:
                edits.append((toks[c['bstart']].start, toks[c['bstart']].start, '{ '))
                edits.append((toks[c['bend']].end, toks[c['bend']].end, ' }'))
    # hints
    for (label, tags, pos, prefix, text, lineno) in spec.hints:
        if text.lstrip().startswith('@raw'):
            block = '\n' + mark(text.lstrip()[4:].lstrip('\n'), label) + '\n'
        else:
            block = '\n' + mark('proof {\n' + text + '\n}', label) + '\n'
        if pos == 'start':
            edits.append((toks[0].end, toks[0].end, block))
            continue
        starts = stmt_starts(toks)
        np = norm(prefix)
        hits = [i for i in starts if norm(body[toks[i].start:toks[i].start + len(prefix) * 3 + 40]).startswith(np)]
        if len(hits) != 1:
            raise Undecided('lost anchor: hint %s %s %r in %s matches %d statements' % (label, pos, prefix, where, len(hits)))
        i = hits[0]
        if pos == 'before':
            edits.append((toks[i].start, toks[i].start, block))
        else:
            e = stmt_end(toks, i)
            edits.append((toks[e].end, toks[e].end, block))
    # apply: sort by position descending; for equal positions keep insertion order stable (later edits first)
    out = body
    for idx, (s, e, t) in sorted(enumerate(edits), key=lambda x: (-x[1][0], -x[0])):
        out = out[:s] + t + out[e:]
    return out


class Generated:
    def __init__(self):
        self.text = ''
        self.functions = []      # dicts: name, source, path, line, sha, rules, verbatim, props
        self.clauses = {}        # label -> dict(tags, kind, expr, fn)
        self.line_label = {}     # line -> label
        self.line_fn = {}        # line -> function name (generated)
        self.trusted = []
        self.rules_fired = {}
        self.notes = []
        self.auto_prefixes = set()


def read_fragment(kind, name):
    p = os.path.join(VERIF, kind, name + '.rs')
    if not os.path.exists(p):
        raise Undecided('missing %s file %s' % (kind, p))
    return open(p, encoding='utf-8').read()


def assume_lemmas(text):
    """`proof fn` with a body -> external_body (used only in the strict-twin file, see build)"""
    return re.sub(r'(?m)^(\s*)((?:#\[verifier::rlimit\(\d+\)\]\s*\n\s*)?)((?:pub\s+)?(?:broadcast\s+)?proof\s+fn\b)', r'\1#[verifier::external_body]\n\1\3', text)


def build(unit_path, repo=None, extra_tail='', twins_only=False):
    repo = repo or REPO
    u = vspec.parse(unit_path)
    ctx = Ctx(u)
    ctx.repo = repo
    g = Generated()
    sources = {}
    parts = []
    parts.append(HEADER)
    for f in u.features:
        if f not in ('allocator_api', 'sized_hierarchy', 'pattern'):
            parts.append('#![feature(%s)]\n' % f)
    parts.append('use vstd::prelude::*;\n')
    pre_uses = []
    frag_texts = []
    for nm in u.prelude:
        frag_texts.append(('prelude/' + nm, read_fragment('prelude', nm)))
    for nm in u.spec:
        frag_texts.append(('spec/' + nm, read_fragment('spec', nm)))
    # `use` lines in fragments are hoisted outside verus!{}
    body_parts = []
    for nm, t in frag_texts:
        keep = []
        for ln in t.split('\n'):
            if re.match(r'^use\s', ln):
                if ln not in pre_uses:
                    pre_uses.append(ln)
            else:
                keep.append(ln)
        body_parts.append('// ======== %s ========\n%s\n' % (nm, '\n'.join(keep)))
    if twins_only:
        # the strict-twin file is checked with a tiny resource limit: lemmas of the spec library are proved in the main file, here they are assumed
        body_parts = [assume_lemmas(x) for x in body_parts]
    parts.append('\n'.join(pre_uses) + '\n')
    parts.append('verus! {\n')
    parts += body_parts
    # items
    open_impl = None
    item_chunks = []

    def close_impl():
        nonlocal open_impl
        if open_impl is not None:
            item_chunks.append('}\n')
            open_impl = None

    for it in u.items:
        if isinstance(it, tuple) and it[0] == 'rawin':
            hdr, _ = R.apply_rules([r for r in u.rules if r in ('R1', 'R3')], it[3], ctx)
            if hdr != open_impl:
                close_impl()
                item_chunks.append('%s {\n' % hdr)
                open_impl = hdr
            item_chunks.append('// ---- raw in block (units/%s.vspec:%d)\n%s\n' % (it[4], it[2], it[1]))
            continue
        if isinstance(it, tuple):
            close_impl()
            item_chunks.append('// ======== raw (units/%s.vspec:%d) ========\n%s\n' % (it[4], it[2], it[1]))
            continue
        if it.source is None:
            raise Undecided('%s:%d: item without source' % (unit_path, it.lineno))
        if it.source not in sources:
            sources[it.source] = SourceFile(os.path.join(repo, it.source))
            ctx.add_source(sources[it.source])
            if sources[it.source].erased:
                # rule R30 (tool/erase.py) was applied to the whole file before slicing; its firings are counted once per file
                for k_, v_ in sources[it.source].erased.items():
                    if v_:
                        g.rules_fired[k_] = g.rules_fired.get(k_, 0) + v_
        sf = sources[it.source]
        if it.path.startswith('lifted '):
            from extract import Item
            lname = it.path.split()[1]
            if lname not in ctx.lifted:
                raise Undecided('lifted function %s has not been produced by a rule (R19/R16) before this item' % lname)
            lsig, lbody = ctx.lifted[lname]
            item = Item('fn', None, lname, lsig + lbody, 0, sig=lsig + ' ', body=lbody)
        else:
            item = sf.find(it.path)
        rule_names = it.rules if it.rules is not None else u.rules
        ctx.rule_args = dict(u.rule_args)
        for k_, v_ in it.rule_args.items():
            ctx.rule_args[k_] = list(u.rule_args.get(k_, [])) + v_
        segs = [s.strip() for s in re.split(r'\s+::\s+', it.path.strip())]
        where = '%s :: %s' % (it.source, it.path)
        if item.kind != 'fn':
            close_impl()
            text, fired = R.apply_rules(rule_names, item.text, ctx)
            R.check_residue(text, where)
            for k, v in fired.items():
                g.rules_fired[k] = g.rules_fired.get(k, 0) + v
            pre = ''.join(a + '\n' for a in it.attrs)
            item_chunks.append('// ---- %s\n%s%s\n' % (where, pre, text))
            g.functions.append({'name': it.path, 'kind': item.kind, 'source': it.source, 'line': sf.line_of(item), 'sha': sha(item.text),
                                'rules': fired, 'verbatim': not fired, 'props': it.props})
            continue
        # function
        header = None
        if len(segs) > 1 or it.as_header:
            header = it.as_header or segs[0]
            # drop auto-trait bounds in trait headers etc. via rules on header text
            header, _ = R.apply_rules([r for r in rule_names if r in ('R1', 'R3')], header, ctx)
        if header != open_impl:
            close_impl()
            if header is not None:
                item_chunks.append('%s {\n' % header)
                open_impl = header
        sig, fired1 = R.apply_rules(rule_names, item.sig, ctx)
        fired = dict(fired1)
        body = item.body
        if body is not None:
            both = sig + '\x00' + body
            both, fired = R.apply_rules(rule_names, item.sig + '\x00' + body, ctx)
            sig, body = both.split('\x00')
            R.check_residue(body, where)
        for k, v in fired.items():
            g.rules_fired[k] = g.rules_fired.get(k, 0) + v
        if it.as_header and getattr(item, 'parent_text', None):
            # rule R21: a std trait impl turned into an inherent impl; its associated types are substituted
            for am in re.finditer(r'\btype\s+([A-Za-z0-9_]+)\s*=\s*([^;]+);', item.parent_text):
                pat = r'\bSelf\s*::\s*%s\b' % re.escape(am.group(1))
                if re.search(pat, sig) or (body and re.search(pat, body)):
                    sig = re.sub(pat, am.group(2).strip(), sig)
                    if body:
                        body = re.sub(pat, am.group(2).strip(), body)
                    fired['R21'] = fired.get('R21', 0) + 1
                    g.rules_fired['R21'] = g.rules_fired.get('R21', 0) + 1
        if it.rename:
            sig = re.sub(r'\bfn\s+' + re.escape(item.name) + r'\b', 'fn ' + it.rename, sig, count=1)
        if 'c20' in getattr(it, 'auto', []) and not getattr(it, '_auto_done', False) and re.search(r'\bworld\s*:\s*&mut\s+World\b', sig):
            it._auto_done = True
            mret = re.search(r'->\s*(.*?)\s*(?:where\b|$)', norm_sp(sig))
            rt = mret.group(1) if mret else ''
            rn = it.ret or 'r'
            cexpr = None
            if re.match(r'^VfsResult\s*<', rt):
                cexpr = 'no_fault(*old(world), *final(world)) || %s is Err' % rn
            elif re.match(r'^Option\s*<\s*VfsResult\s*<', rt):
                cexpr = 'no_fault(*old(world), *final(world)) || (%s is Some && %s->Some_0 is Err)' % (rn, rn)
            if cexpr:
                it.ret = rn
                labs = [c.label for c in it.clauses if c.label] + [h[0] for h in it.hints]
                pref = '.'.join(labs[0].split('.')[:2]) if labs and labs[0].count('.') >= 1 else (it.rename or item.name)
                if pref in g.auto_prefixes:
                    pref = pref + '.' + (it.rename or item.name)
                g.auto_prefixes.add(pref)
                atag = getattr(it, 'auto_tag', None) or 'C20'
                it.clauses.append(vspec.Clause('ensures', [atag], pref + '.c20_no_silent_fault', cexpr, it.lineno))
                if atag not in it.props:
                    it.props = list(it.props) + [atag]
            else:
                g.notes.append('no C20 clause for %s (return type %s)' % (where, rt))
        if it.ret:
            sig = name_return(sig, it.ret)
        fname = '%s::%s' % (norm_sp(header) if header else '', it.rename or item.name)
        req = [c for c in it.clauses if c.kind == 'requires']
        ens = [c for c in it.clauses if c.kind == 'ensures' and not c.strict]
        strict = [c for c in it.clauses if c.kind == 'ensures' and c.strict]
        dec = [c for c in it.clauses if c.kind == 'decreases']
        contract = clause_block('requires', req, '    ') + clause_block('ensures', ens, '    ') + clause_block('decreases', dec, '    ')
        included = getattr(it, 'included_from', None)
        if twins_only and not included:
            it.twin_host = True
        if included:
            # contract text comes from the home unit; it is assumed here and proved there
            for c in it.clauses:
                c.label = None
            for n, cl in it.loops.items():
                for c in cl:
                    c.label = None
            for n, d in it.closures.items():
                for c in d['clauses']:
                    c.label = None
            it.hints = [] if it.external_body else it.hints
        for c in it.clauses:
            if c.label and not getattr(c, 'strict', False) and not twins_only:
                if c.label in g.clauses:
                    raise Undecided('duplicate clause label %s' % c.label)
                g.clauses[c.label] = {'tags': c.tags, 'kind': c.kind, 'expr': c.expr, 'fn': fname, 'unit': u.name}
        for n, cl in it.loops.items():
            for c in cl:
                if c.label and not twins_only:
                    if c.label in g.clauses:
                        raise Undecided('duplicate clause label %s' % c.label)
                    g.clauses[c.label] = {'tags': c.tags, 'kind': 'loop-' + c.kind, 'expr': c.expr, 'fn': fname, 'unit': u.name}
        for n, d in it.closures.items():
            for c in d['clauses']:
                if not c.label or twins_only:
                    continue
                if c.label in g.clauses:
                    raise Undecided('duplicate clause label %s' % c.label)
                g.clauses[c.label] = {'tags': c.tags, 'kind': 'closure-' + c.kind, 'expr': c.expr, 'fn': fname, 'unit': u.name}
        for (label, tags, pos, prefix, text, lineno) in it.hints:
            if label not in g.clauses and not included and not twins_only:
                g.clauses[label] = {'tags': tags, 'kind': 'hint', 'expr': '(proof hint)', 'fn': fname, 'unit': u.name}
        pre = ''.join('    ' + a + '\n' for a in it.attrs)
        if (it.external_body or (twins_only and not included)) and body is not None:
            pre += '    #[verifier::external_body]\n'
        if body is None:
            chunk = '%s    %s\n%s    ;\n' % (pre, sig.strip(), contract)
        else:
            body2 = body if ((included and it.external_body) or twins_only) else splice_body(body, it, where)
            chunk = '%s    %s // @@fn:%s\n%s    %s\n' % (pre, sig.strip(), fname, contract, body2)
        item_chunks.append('// ---- %s\n%s' % (where, chunk))
        if strict and body is not None and not included and twins_only:
            # one twin copy per clause taken verbatim from the property text that is known / expected to be refuted (findings);
            # isolating them keeps the main proof small and gives each of them its own verdict
            import copy
            pre_t = ''.join('    ' + a + '\n' for a in it.attrs)
            for sn, sc in enumerate(strict):
                tname = (it.rename or item.name) + '__strict_%d' % sn
                tsig = re.sub(r'\bfn\s+' + re.escape(it.rename or item.name) + r'\b', 'fn ' + tname, sig, count=1)
                tfname = '%s::%s' % (norm_sp(header) if header else '', tname)
                req2 = [vspec.Clause('requires', c.tags, None, c.expr, c.lineno) for c in req]
                tcontract = clause_block('requires', req2, '    ') + clause_block('ensures', [sc], '    ')
                if sc.label in g.clauses:
                    raise Undecided('duplicate clause label %s' % sc.label)
                g.clauses[sc.label] = {'tags': sc.tags, 'kind': 'ensures-strict', 'expr': sc.expr, 'fn': tfname, 'unit': u.name}
                it3 = copy.copy(it)
                it3.hints = []
                it3.loops = {n: [vspec.Clause(c.kind, c.tags, None, c.expr, c.lineno) for c in cl] for n, cl in it.loops.items()}
                it3.closures = {n: {'sig': d['sig'], 'clauses': [vspec.Clause(c.kind, c.tags, None, c.expr, c.lineno) for c in d['clauses']]} for n, d in it.closures.items()}
                tbody = splice_body(body, it3, where) if (it.closures) else body
                item_chunks.append('// ---- %s (strict twin %d)\n%s    %s // @@fn:%s\n%s    %s\n' % (where, sn, pre_t, tsig.strip(), tfname, tcontract, tbody))
                g.functions.append({'name': tfname, 'kind': 'fn', 'source': it.source, 'path': it.path, 'line': 0, 'sha': sha(item.text),
                                    'rules': fired, 'verbatim': False, 'props': [], 'external_body': False, 'has_body': False, 'included_from': None, 'twin': True})
        g.functions.append({'name': fname, 'kind': 'fn', 'source': it.source, 'path': it.path, 'line': sf.line_of(item), 'sha': sha(item.text),
                            'rules': fired, 'verbatim': not fired and not it.as_header and not it.path.startswith('lifted '), 'props': it.props,
                            'external_body': it.external_body or twins_only, 'has_body': body is not None, 'included_from': included})
    close_impl()
    if twins_only:
        item_chunks = [assume_lemmas(x) if x.startswith('// ======== raw') else x for x in item_chunks]
    parts += item_chunks
    if extra_tail:
        parts.append(extra_tail)
    parts.append('} // verus!\nfn main() {}\n')
    g.text = ''.join(parts)
    # line maps
    cur_fn = None
    depth_at_fn = None
    for ln, line in enumerate(g.text.split('\n'), 1):
        m = re.search(r'// @@fn:(.*)$', line)
        if m:
            cur_fn = m.group(1).strip()
        else:
            m2 = re.match(r'\s*(?:pub\s+)?(?:open\s+|closed\s+|broadcast\s+|uninterp\s+)*(?:proof|spec|exec)?\s*(?:axiom\s+)?fn\s+([A-Za-z0-9_]+)', line)
            if m2 and '@@' not in line:
                cur_fn = 'raw::' + m2.group(1)
            m3 = re.search(r'// @@(\S+)\s*$', line)
            if m3:
                g.line_label[ln] = m3.group(1)
        g.line_fn[ln] = cur_fn
    g.trusted = scan_trusted(g.text)
    g.unit = u
    g.watched = {}
    for (wsrc, wpath, wtags, wline) in u.watches:
        if wsrc not in sources:
            sources[wsrc] = SourceFile(os.path.join(repo, wsrc))
        try:
            if wpath.endswith(':: *'):
                # method list of an impl block: a newly added (or removed) method - e.g. an override of a trait default - changes it
                names = sources[wsrc].method_names(wpath[:-4].strip())
                g.watched['%s :: %s' % (wsrc, wpath)] = {'sha': sha(' '.join(names)), 'tags': wtags, 'methods': names}
                continue
            witem = sources[wsrc].find(wpath)
            # token-level hash: comments, blank lines and re-wrapping do not count as a change
            from lexer import lex as _lex
            g.watched['%s :: %s' % (wsrc, wpath)] = {'sha': sha(' '.join(t.text for t in _lex(witem.text))), 'tags': wtags}
        except Undecided:
            g.watched['%s :: %s' % (wsrc, wpath)] = {'sha': 'MISSING', 'tags': wtags}
    g.has_strict = any((not isinstance(x, tuple)) and any(getattr(c, 'strict', False) for c in x.clauses) and not getattr(x, 'included_from', None) for x in u.items)
    return g


def scan_trusted(text):
    """mechanical scan for assumptions in the generated file"""
    out = []
    lines = text.split('\n')
    for ln, line in enumerate(lines, 1):
        s = line.strip()
        if s.startswith('//'):
            continue
        code = s.split('//')[0]
        if re.search(r'\bassume\s*\(', code):
            out.append('assume @%d: %s' % (ln, code[:100]))
        if re.search(r'\badmit\s*\(', code):
            out.append('admit @%d' % ln)
        if 'external_body' in code:
            nxt = ''
            for k in range(ln, min(ln + 4, len(lines))):
                if re.search(r'\b(fn|struct)\b', lines[k]):
                    nxt = lines[k].strip()
                    break
            out.append('external_body: %s' % nxt[:110])
        if 'assume_specification' in code:
            out.append('assume_specification: %s' % code[:130])
        if re.search(r'\baxiom\s+fn\b', code):
            out.append('axiom: %s' % code[:130])
        if 'external_type_specification' in code:
            nxt = lines[ln].strip() if ln < len(lines) else ''
            if 'external_body' in nxt and ln + 1 < len(lines):
                nxt = lines[ln + 1].strip()
            out.append('external_type: %s' % nxt[:100])
        if re.search(r'global\s+size_of', code):
            out.append('layout assumption: %s' % code)
    return out
