"""Minimal Rust lexer: enough to slice items, match braces and find statements.

Tokens: (kind, text, start, end) with kind in
  ident, lifetime, char, str, num, punct, attr_start ('#'), comment (dropped unless keep_comments)
Whitespace is not a token; original offsets are kept so text can be sliced verbatim.
"""
import re

IDENT_RE = re.compile(r'[A-Za-z_][A-Za-z0-9_]*')
NUM_RE = re.compile(r'[0-9][0-9A-Za-z_]*(\.[0-9][0-9A-Za-z_]*)?')
PUNCT3 = ('<<=', '>>=', '...', '..=')
PUNCT2 = ('::', '->', '=>', '==', '!=', '<=', '>=', '&&', '||', '+=', '-=', '*=', '/=', '%=', '^=', '&=', '|=', '<<', '>>', '..')


class LexError(Exception):
    pass


class Tok:
    __slots__ = ('kind', 'text', 'start', 'end')

    def __init__(self, kind, text, start, end):
        self.kind, self.text, self.start, self.end = kind, text, start, end

    def __repr__(self):
        return 'Tok(%s,%r,%d)' % (self.kind, self.text, self.start)


def lex(src, keep_comments=False):
    toks = []
    i, n = 0, len(src)
    while i < n:
        c = src[i]
        if c.isspace():
            i += 1
            continue
        if src.startswith('//', i):
            j = src.find('\n', i)
            j = n if j < 0 else j
            if keep_comments:
                toks.append(Tok('comment', src[i:j], i, j))
            i = j
            continue
        if src.startswith('/*', i):
            depth, j = 1, i + 2
            while j < n and depth:
                if src.startswith('/*', j):
                    depth += 1
                    j += 2
                elif src.startswith('*/', j):
                    depth -= 1
                    j += 2
                else:
                    j += 1
            if depth:
                raise LexError('unterminated block comment at %d' % i)
            if keep_comments:
                toks.append(Tok('comment', src[i:j], i, j))
            i = j
            continue
        # raw strings / byte strings
        m = re.match(r'(b|c)?r(#*)"', src[i:i + 40])
        if m:
            hashes = m.group(2)
            close = '"' + hashes
            j = src.find(close, i + m.end())
            if j < 0:
                raise LexError('unterminated raw string at %d' % i)
            j += len(close)
            toks.append(Tok('str', src[i:j], i, j))
            i = j
            continue
        if c == '"' or (c in 'bc' and i + 1 < n and src[i + 1] == '"'):
            j = i + (1 if c == '"' else 2)
            while j < n and src[j] != '"':
                j += 2 if src[j] == '\\' else 1
            if j >= n:
                raise LexError('unterminated string at %d' % i)
            j += 1
            toks.append(Tok('str', src[i:j], i, j))
            i = j
            continue
        if c == "'" or (c == 'b' and i + 1 < n and src[i + 1] == "'"):
            k = i + (0 if c == "'" else 1)
            # char literal or lifetime
            if src[k + 1] == '\\':
                j = k + 2
                while j < n and src[j] != "'":
                    j += 1
                j += 1
                toks.append(Tok('char', src[i:j], i, j))
                i = j
                continue
            if k + 2 < n and src[k + 2] == "'":
                j = k + 3
                toks.append(Tok('char', src[i:j], i, j))
                i = j
                continue
            m = IDENT_RE.match(src, k + 1)
            if m and c == "'":
                toks.append(Tok('lifetime', src[i:m.end()], i, m.end()))
                i = m.end()
                continue
            # multi-byte char literal like 'é'
            j = src.find("'", k + 1)
            if j < 0 or j - k > 6:
                raise LexError('bad char literal at %d' % i)
            j += 1
            toks.append(Tok('char', src[i:j], i, j))
            i = j
            continue
        m = IDENT_RE.match(src, i)
        if m:
            toks.append(Tok('ident', m.group(0), i, m.end()))
            i = m.end()
            continue
        m = NUM_RE.match(src, i)
        if m:
            # do not swallow a range operator: 1..2
            txt = m.group(0)
            if '.' in txt and src.startswith('..', i + txt.index('.')):
                txt = txt[:txt.index('.')]
            toks.append(Tok('num', txt, i, i + len(txt)))
            i += len(txt)
            continue
        for group in (PUNCT3, PUNCT2):
            hit = None
            for p in group:
                if src.startswith(p, i):
                    hit = p
                    break
            if hit:
                break
        if hit:
            toks.append(Tok('punct', hit, i, i + len(hit)))
            i += len(hit)
            continue
        toks.append(Tok('punct', c, i, i + 1))
        i += 1
    return toks


OPEN = {'(': ')', '[': ']', '{': '}'}
CLOSE = {')': '(', ']': '[', '}': '{'}


def match_close(toks, i):
    """toks[i] is an opening bracket; return index of its matching closer."""
    assert toks[i].text in OPEN, toks[i]
    depth = 0
    for j in range(i, len(toks)):
        t = toks[j]
        if t.kind == 'punct':
            if t.text in OPEN:
                depth += 1
            elif t.text in CLOSE:
                depth -= 1
                if depth == 0:
                    return j
    raise LexError('unbalanced bracket at offset %d' % toks[i].start)


def strip_comments(src):
    """Return src with comments replaced by nothing (newlines kept for line comments)."""
    out = []
    last = 0
    for t in lex(src, keep_comments=True):
        if t.kind == 'comment':
            out.append(src[last:t.start])
            out.append('\n' * src.count('\n', t.start, t.end))
            last = t.end
    out.append(src[last:])
    return ''.join(out)
