#!/usr/bin/env python3
"""Regenerate seeded/SUMMARY.md from seeded/*/meta.json"""
import glob, json, os
V = os.path.dirname(os.path.dirname(os.path.abspath(__file__)))
rows = []
for f in sorted(glob.glob(os.path.join(V, 'seeded', '*', 'meta.json'))):
    m = json.load(open(f))
    sid = os.path.basename(os.path.dirname(f))
    log = os.path.join(os.path.dirname(f), 'checks.log')
    obl = []
    if os.path.exists(log):
        for l in open(log):
            if l.startswith('VIOLATION'):
                o = [x for x in l.split() if x.startswith('obligation=')]
                if o: obl.append(o[0][11:])
    rows.append((sid, m.get('property'), m.get('confirmed_by_us', {}).get('ok'), m.get('checks_run'), m.get('detected_by'), sorted(set(obl)), (m.get('summary') or '')[:160], m.get('note')))
with open(os.path.join(V, 'seeded', 'SUMMARY.md'), 'w') as out:
    out.write('# Seeded changes and which checks catch them\n\n| id | property | confirmed | checks run (exit) | detected by | failed obligations | change |\n|---|---|---|---|---|---|---|\n')
    for r in rows:
        out.write('| %s | %s | %s | %s | %s | %s | %s |\n' % (r[0], r[1], r[2], ' '.join('%s:%s' % kv for kv in (r[3] or {}).items()), ' '.join(r[4] or []) or '**none**', ' '.join(r[5]), r[6].replace('|', '/')))
    notes = [r for r in rows if r[7]]
    if notes:
        out.write('\n## Notes\n\n')
        for r in notes:
            out.write('* **%s**: %s\n' % (r[0], r[7]))
    n_det = sum(1 for r in rows if r[4])
    out.write('\n%d changes, %d detected (exit 1 with a VIOLATION line by at least one of the checks run), %d not detected.\n' % (len(rows), n_det, len(rows) - n_det))
print(open(os.path.join(V, 'seeded', 'SUMMARY.md')).read())
