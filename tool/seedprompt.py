#!/usr/bin/env python3
"""seedprompt.py seed <name> <PID> "<where to look>" [--features F]   |   seedprompt.py harmless <name> "<files / functions>"
Writes /tmp/seed/prompts/<name>.txt: the task text handed to a fresh sub-agent that produces seeded property-breaking changes (or
behaviour-preserving edits) in its own scratch worktree /tmp/seed/<name>.  The agent sees the property text and nothing from /verif."""
import json
import os
import sys

V = os.path.dirname(os.path.dirname(os.path.abspath(__file__)))
HEAD = ("You are helping to evaluate a verification effort on the Rust crate `vfs` (manuel-woelker/rust-vfs, a virtual filesystem abstraction with "
        "in-memory, physical, altroot, overlay and embedded backends plus async ports). You have your own scratch git worktree of the repository at "
        "/tmp/seed/{n} (detached HEAD). Work ONLY inside /tmp/seed/{n} (you may also create scratch files under /tmp/seed/{n} or /tmp/seedwork-{n}). "
        "Do NOT read, list or touch /verif, and do NOT touch /repo. There is no network; build with `cargo ... --offline`.\n\n")

SEED = HEAD + """Here is a semantic property the crate is supposed to satisfy:

  Title: {title}
  Statement: {statement}
  Quantified over: {quant}

Earlier rounds already produced obvious changes (a dropped type check, an off-by-one in a slice, a swapped layer index); look for subtler ones: a condition that is almost always equivalent, state carried across calls, an interaction between two functions, behaviour that differs only for multi-byte names, empty names, the root, or deep nesting.

Your task: produce 3 DIFFERENT, independent source changes to the crate (each one a separate small patch against the worktree's HEAD) such that each change, on its own:
  1. still compiles (`cargo build --offline`) and still passes the whole existing test suite unedited: `cargo test --workspace --no-fail-fast --offline` must report 397 + 32 tests passed and 0 failed (run it and confirm);
  2. BREAKS the property above (a realistic bug a developer could introduce: an off-by-one, a forgotten check, a wrong branch, a swapped argument, a missing case, two cooperating sites that each look fine alone ...), and
  3. needs something SPECIFIC to manifest - an unusual input, a multi-step sequence of operations, a particular state, a rarely taken branch - i.e. NOT something that ordinary use or the existing tests would expose at once. Do not just delete functionality wholesale. Do not edit tests.
{prefer} Make the 3 changes differ in kind and location (different functions or different mechanisms).

For each change, also write a demonstration: a small Rust integration test file (to be placed at tests/seed_demo.rs of the crate, using only the public API of the `vfs` crate, e.g. `use vfs::{{VfsPath, MemoryFS, AltrootFS, OverlayFS, PhysicalFS}};`) that FAILS with the change applied and PASSES on the unchanged HEAD. Verify both directions yourself by actually running `cargo test --offline --test seed_demo`.
{extra}
Deliverables, written to the directory /tmp/seed/{n}/SEED_OUT/ (create it), for k = 1..3:
  - /tmp/seed/{n}/SEED_OUT/<k>/patch.diff   : output of `git diff` for the source change only (paths relative to repo root, NOT including the demo test or SEED_OUT), applicable with `git apply` on HEAD
  - /tmp/seed/{n}/SEED_OUT/<k>/seed_demo.rs : the demonstration test file
  - /tmp/seed/{n}/SEED_OUT/<k>/meta.json    : {{"property": "{pid}", "summary": "<one sentence: what the change does>", "needs": "<what is needed for it to manifest>", "ran": ["<commands you ran and their outcome>"]}}
After producing each patch, restore the worktree source (`git checkout -- .` and remove tests/seed_demo.rs) before starting the next so patches are independent. At the end, leave the worktree source restored to HEAD (SEED_OUT stays). Remove any big build output you created outside the worktree. Keep the final answer short: list the 3 summaries and confirm the verification you did."""

HARMLESS = HEAD + """Your task: produce 3 DIFFERENT, independent BEHAVIOUR-PRESERVING edits of {files}, each one a separate patch against the worktree's HEAD, of the kind a maintainer makes in ordinary work and that must NOT change what any caller can observe:
  - refactorings: extract a helper function, inline a helper, replace a `match` by `if let` or by combinators (`map`/`and_then`/`ok_or`) or the other way round, reorder independent statements, rename local variables, introduce a local for a repeated expression, replace an iterator chain by an explicit loop or the other way round, early-return restructuring, change `&*x` to `x.as_ref()`, split a long function;
  - equivalent standard-library APIs: `x == Y` / `matches!(x, Y)` instead of a `match`, `is_some_and` / `is_ok_and` / `map_or`, `strip_prefix` / `strip_suffix` / `split_once` / `rsplit_once` instead of find + slicing, `checked_*` / `saturating_*` arithmetic where it provably cannot differ, `Option::then` / `then_some`, `copied` / `cloned`, `if let ... else`, `let ... else`;
  - defensive or cosmetic changes: add debug assertions that can never fire, add comments, tighten a type annotation, replace `unwrap_or(Default)` by `unwrap_or_default()`, use `?` instead of an explicit match on Err, and similar.
Each edit should touch 20-60 lines, be something you would be comfortable merging, and keep EVERY observable behaviour identical for ALL inputs: same results, same error kinds, same error paths and messages, same order of side effects on the underlying filesystems, no new panics, same (non-)termination. Make the 3 edits differ in kind and in the functions they touch. Do not edit tests. Do not fix bugs you notice (leave behaviour as it is, even if it looks wrong).

For each edit:
  1. it must compile (`cargo build --offline`; if you touched src/async_vfs also `cargo build --offline --features async-vfs` and `cargo test --offline --features async-vfs --lib`, 784 tests) and pass the whole existing test suite unedited: `cargo test --workspace --no-fail-fast --offline` must report 397 + 32 tests passed and 0 failed (run it and confirm);
  2. write a short argument (3-6 sentences) why behaviour is preserved for all inputs.

Deliverables, written to the directory /tmp/seed/{n}/SEED_OUT/ (create it), for k = 1..3:
  - /tmp/seed/{n}/SEED_OUT/<k>/patch.diff : output of `git diff` for the source change (paths relative to repo root), applicable with `git apply` on HEAD
  - /tmp/seed/{n}/SEED_OUT/<k>/meta.json  : {{"kind": "harmless", "files": "<files touched>", "summary": "<one sentence: what the edit does>", "why_preserving": "<your argument>", "ran": ["<commands you ran and their outcome>"]}}
After producing each patch, restore the worktree source (`git checkout -- .`) before starting the next so patches are independent. At the end, leave the worktree source restored to HEAD (SEED_OUT stays). Keep the final answer short: list the 3 summaries and confirm the verification you did."""


def main():
    os.makedirs('/tmp/seed/prompts', exist_ok=True)
    kind, name = sys.argv[1], sys.argv[2]
    if kind == 'seed':
        pid, prefer = sys.argv[3], sys.argv[4]
        props = {json.loads(l)['id']: json.loads(l) for l in open(os.path.join(V, 'properties.jsonl')) if l.strip()}
        p = props[pid]
        extra = ''
        if '--features' in sys.argv:
            f = sys.argv[sys.argv.index('--features') + 1]
            extra = ('\nThe code in question is behind the cargo feature `%s`: build and test with `--features %s` as well (`cargo test --offline --features %s --lib` must stay green in addition '
                     'to the plain suite), start the demo with `#![cfg(feature = "%s")]`, run it with `cargo test --offline --features %s --test seed_demo`, and put "features": "%s" into meta.json.\n' % ((f,) * 6))
        text = SEED.format(n=name, title=p['title'], statement=p['statement'], quant=p['quantifier']['text'], prefer=prefer, extra=extra, pid=pid)
    else:
        text = HARMLESS.format(n=name, files=sys.argv[3])
    open('/tmp/seed/prompts/%s.txt' % name, 'w').write(text)
    print('/tmp/seed/prompts/%s.txt' % name)


if __name__ == '__main__':
    main()
